/-
C04 (closure `p04chain`) — `ReadsKeepTheirChain` (Props/C04Chromosome.lean, a `def … : Prop` proved on one witness input only) for
ALL inputs, with the second assigner's answers a function of (read, CONTENT of the storage) instead of parameters that name ids
(IsoVerif/Model/ChainAssigner.lean; the real `assign_reads_to_models` is checked to behave like that: harness/props/c04chain.py).

What is proved, per constructor and for every storage / dict / assigner: the relation "read is listed under a novel spliced model of
(strand, chain) k" after the tail of `process()` of the CURRENT code equals that of the code before fix b2b4dd9 — under the decidable
predicate `chainFaithful`, and the predicate is exactly where the two differ (`…_residual_witness`: the polyA variant class of the
finding `split_region_apa_variant`; `…_gain_witness`: a later sub-region below the novel cut-off, where the current code lists MORE).
Helper lemmas: IsoVerif/Lemmas/ChainAssigner.lean.
-/
import IsoVerif.Model.ChainAssigner
import IsoVerif.Lemmas.ChainAssigner
import IsoVerif.Props.C04Chromosome

namespace IsoVerif.Props.C04Chain
open IsoVerif.Gen IsoVerif.Model IsoVerif.Model.C04 IsoVerif.Lemmas.C04 IsoVerif.Props.C04 IsoVerif.Props.C04Chromosome

/-! ### the relation and the residual predicate -/

/-- "read `r` is listed under a novel spliced model of (strand, chain) `k`" for ONE constructor: `ms` are the models its second
    `assign_reads_to_models` worked on (for the current code: the kept models followed by the copies of the earlier models, whose
    lines `forward_counts` credits to the model an earlier constructor dumped), `s` the storage that is dumped -/
def ListedUnderChain (ms : List TModel) (s : Store) (r : String) (k : ChainKey) : Prop :=
  ∃ m ∈ ms, isSplicedNovel m = true ∧ chainKey m = k ∧ r ∈ readsIn s.readIds m.tid

/-- every read of a withheld copy: it was assigned once, to that copy only, it is offered to the second assigner, and the assigner —
    asked about the storage of the current code — finds it consistent with novel spliced models of exactly the copy's chain
    (the model reported first).  This is the clause the polyA-variant class violates: there the assigner answers "inconsistent". -/
def freedOk (A : CAssigner) (keys : List ChainKey) (s5 : Store) (ms6 : List TModel) (reads : List String) : Bool :=
  (withheld keys s5).all (fun m => (readsIn s5.readIds m.tid).all (fun r =>
    decide (cnt s5.rcount r = 1) && decide (r ∈ reads) &&
    s5.models.all (fun m' => decide (m'.tid = m.tid) || decide (r ∉ readsIn s5.readIds m'.tid)) &&
    sameKeys (ansChains ms6 (A r (ms6.map TModel.content))) [chainKey m]))

/-- every other read that reaches the assigner: the chains of the answer are the same on both storages -/
def othersOk (A : CAssigner) (keys : List ChainKey) (s5 : Store) (ms6 : List TModel) (reads : List String) : Bool :=
  reads.all (fun r => decide (r ∈ freedReads keys s5) || decide (cnt s5.rcount r > 0) ||
    sameKeys (ansChains s5.models (A r (s5.models.map TModel.content))) (ansChains ms6 (A r (ms6.map TModel.content))))

/-- the residual class, decidable: `true` = the assigner's verdicts on the storage of the current code name the same chains as on the
    storage of the code before the fixes -/
def chainFaithful (A : CAssigner) (keys : List ChainKey) (s5 : Store) (ms6 : List TModel) (reads : List String) : Bool :=
  freedOk A keys s5 ms6 reads && othersOk A keys s5 ms6 reads

/-! ### one constructor, all inputs -/

/-- **reads_keep_their_chain_region.**  One constructor of the current code against the code before fix b2b4dd9, on the SAME storage
    after `filter_transcripts`, the same dict, the same reads, ANY content-based assigner: under `chainFaithful` a read is listed
    under a novel spliced model of chain `k` by the one iff by the other.  Hypotheses besides the residual predicate are invariants:
    read ids of the record pairwise different, transcript ids of a storage pairwise different (C17), lines name stored models. -/
theorem reads_keep_their_chain_region (A : CAssigner) (s5 s6 : Store) (reported rep' : ModelMap) (span : Option (Int × Int))
    (final : List TModel) (reads : List String)
    (h : s5.dropJoin reported span = some (s6, final, rep'))
    (hreads : reads.Nodup) (hids5 : (ids s5.models).Nodup) (hids6 : (ids s6.models).Nodup)
    (hinv : ∀ t, t ∉ ids s5.models → readsIn s5.readIds t = [])
    (hfaith : chainFaithful A (modelKeys reported) s5 s6.models reads = true) (r : String) (k : ChainKey) :
    ListedUnderChain s5.models (s5.assignReads (insOf A reads s5.models)) r k ↔
    ListedUnderChain s6.models (s6.assignReads (insOf A reads s6.models)) r k := by
  obtain ⟨hf, _, em, s', _, hms, hd, hsm, h1, _, h3⟩ := dropJoin_spec h
  obtain ⟨_, _, D, hcov, hsh, hnD⟩ := dropReported_spec hd
  obtain ⟨_, rc2, rc3⟩ := dropReported_rcount hd r
  rw [← h3] at rc2 rc3
  have hreads6 : ∀ t, readsIn s6.readIds t = if t ∈ D then [] else readsIn s5.readIds t := by
    intro t; rw [h1]; exact hsh.reads t
  have hfinal_mem : ∀ m, m ∈ final ↔ m ∈ s5.models ∧ keepModel (modelKeys reported) m = true := by
    intro m; rw [hf]; simp [List.mem_filter]
  have hnD' := hnD hids5
  have hB6 : ∀ m ∈ s6.models, r ∈ readsIn s6.readIds m.tid → m ∈ final ∧ r ∈ readsIn s5.readIds m.tid := by
    intro m hm hr
    rw [hreads6] at hr
    split at hr
    · simp at hr
    · rename_i hD
      have hm' := hm
      rw [hms] at hm'
      rcases List.mem_append.1 hm' with hm1 | _
      · exact ⟨hm1, hr⟩
      · by_cases hin : m.tid ∈ ids s5.models
        · obtain ⟨m0, hm0, hmt⟩ := List.mem_map.1 hin
          rcases hcov m0 hm0 with c1 | c2
          · rw [hsm] at c1
            have : m0 = m := eq_of_nodup_ids hids6 (by rw [hms]; exact List.mem_append_left _ c1) hm hmt
            subst this
            exact ⟨c1, hr⟩
          · rw [hmt] at c2; exact absurd c2 hD
        · rw [hinv _ hin] at hr; simp at hr
  unfold ListedUnderChain
  rw [assignContent_chains A s5 reads hreads hids5, assignContent_chains A s6 reads hreads hids6]
  simp only [chainFaithful, Bool.and_eq_true] at hfaith
  obtain ⟨hfr, hoth⟩ := hfaith
  by_cases hfreed : ∃ m ∈ s5.models, keepModel (modelKeys reported) m = false ∧ r ∈ readsIn s5.readIds m.tid
  · obtain ⟨m, hm, hkm, hrm⟩ := hfreed
    simp only [freedOk, withheld, List.all_eq_true, List.mem_filter, Bool.and_eq_true, decide_eq_true_eq, Bool.or_eq_true,
      Bool.not_eq_true', and_imp] at hfr
    obtain ⟨⟨⟨hc1, hrin⟩, huniq⟩, hsame⟩ := hfr m hm hkm r hrm
    have hsn : isSplicedNovel m = true := by
      simp only [keepModel, Bool.not_eq_false', Bool.and_eq_true] at hkm
      exact hkm.1
    have huniq' : ∀ m' ∈ s5.models, r ∈ readsIn s5.readIds m'.tid → m' = m := by
      intro m' hm' hr'
      rcases huniq m' hm' with e | e
      · exact eq_of_nodup_ids hids5 hm' hm e
      · exact absurd hr' e
    have hc6 : ¬ cnt s6.rcount r > 0 := by
      have := rc3 hids5 m hm hkm hrm
      clear rc2 rc3 hB6 huniq huniq' hfr hoth
      omega
    constructor
    · rintro (⟨m', hm', _, hk', hr'⟩ | ⟨_, hc, _⟩)
      · have := huniq' m' hm' hr'
        subst this
        refine Or.inr ⟨hrin, hc6, ?_⟩
        rw [sameKeys_iff hsame]
        simp [hk']
      · exact absurd (by rw [hc1]; decide) hc
    · rintro (⟨m', hm', _, _, hr'⟩ | ⟨_, _, hk⟩)
      · obtain ⟨hmf, hr5⟩ := hB6 m' hm' hr'
        have hm5 := (hfinal_mem m').1 hmf
        have := huniq' m' hm5.1 hr5
        subst this
        rw [hkm] at hm5
        simp at hm5
      · rw [sameKeys_iff hsame] at hk
        simp only [List.mem_singleton] at hk
        exact Or.inl ⟨m, hm, hsn, hk.symm, hrm⟩
  · have hnot : ∀ m ∈ s5.models, keepModel (modelKeys reported) m = false → r ∉ readsIn s5.readIds m.tid :=
      fun m hm hk hr => hfreed ⟨m, hm, hk, hr⟩
    have hceq := rc2 hnot
    have hans : r ∈ reads → ¬ cnt s5.rcount r > 0 → ∀ k, k ∈ ansChains s5.models (A r (s5.models.map TModel.content)) ↔
        k ∈ ansChains s6.models (A r (s6.models.map TModel.content)) := by
      intro hrin hc k
      simp only [othersOk, List.all_eq_true, Bool.or_eq_true, decide_eq_true_eq] at hoth
      rcases hoth r hrin with (o1 | o2) | o3
      · exact absurd (mem_freedReads.1 o1) hfreed
      · exact absurd o2 hc
      · exact sameKeys_iff o3 k
    constructor
    · rintro (⟨m, hm, hsn, hk, hr⟩ | ⟨hrin, hc, hk⟩)
      · have hkeep : keepModel (modelKeys reported) m = true := by
          cases hkk : keepModel (modelKeys reported) m with
          | false => exact absurd hr (hnot m hm hkk)
          | true => rfl
        have hmf : m ∈ final := (hfinal_mem m).2 ⟨hm, hkeep⟩
        refine Or.inl ⟨m, by rw [hms]; exact List.mem_append_left _ hmf, hsn, hk, ?_⟩
        rw [hreads6, if_neg (hnD' m (by rw [hsm]; exact hmf))]
        exact hr
      · exact Or.inr ⟨hrin, by rw [hceq]; exact hc, (hans hrin hc k).1 hk⟩
    · rintro (⟨m, hm, hsn, hk, hr⟩ | ⟨hrin, hc, hk⟩)
      · obtain ⟨hmf, hr5⟩ := hB6 m hm hr
        exact Or.inl ⟨m, ((hfinal_mem m).1 hmf).1, hsn, hk, hr5⟩
      · rw [hceq] at hc
        exact Or.inr ⟨hrin, hc, (hans hrin hc k).2 hk⟩

/-! ### one direction: no read LOSES its chain (the later sub-region may gain reads) -/

/-- a read that reaches the assigner unassigned keeps every chain the answer named on the storage of the code before the fixes -/
def othersKeep (A : CAssigner) (keys : List ChainKey) (s5 : Store) (ms6 : List TModel) (reads : List String) : Bool :=
  reads.all (fun r => decide (r ∈ freedReads keys s5) || decide (cnt s5.rcount r > 0) ||
    (ansChains s5.models (A r (s5.models.map TModel.content))).all
      (fun k => decide (k ∈ ansChains ms6 (A r (ms6.map TModel.content)))))

/-- the residual class of "no read loses its chain": `freedOk` (the polyA-variant class fails it) and `othersKeep` -/
def chainKept (A : CAssigner) (keys : List ChainKey) (s5 : Store) (ms6 : List TModel) (reads : List String) : Bool :=
  freedOk A keys s5 ms6 reads && othersKeep A keys s5 ms6 reads

/-- **no_read_loses_its_chain_region.**  The direction of `reads_keep_their_chain_region` that fix b2b4dd9 broke and the follow-ups
    repaired, under the weaker predicate `chainKept` (which `exRegsFew`, the sub-region below the cut-off, satisfies): every read
    the code before the fixes listed under a novel spliced model of chain `k` is listed under a model of chain `k` by the current code. -/
theorem no_read_loses_its_chain_region (A : CAssigner) (s5 s6 : Store) (reported rep' : ModelMap) (span : Option (Int × Int))
    (final : List TModel) (reads : List String)
    (h : s5.dropJoin reported span = some (s6, final, rep'))
    (hreads : reads.Nodup) (hids5 : (ids s5.models).Nodup) (hids6 : (ids s6.models).Nodup)
    (hkept : chainKept A (modelKeys reported) s5 s6.models reads = true) (r : String) (k : ChainKey) :
    ListedUnderChain s5.models (s5.assignReads (insOf A reads s5.models)) r k →
    ListedUnderChain s6.models (s6.assignReads (insOf A reads s6.models)) r k := by
  obtain ⟨hf, _, em, s', _, hms, hd, hsm, h1, _, h3⟩ := dropJoin_spec h
  obtain ⟨_, _, D, _, hsh, hnD⟩ := dropReported_spec hd
  obtain ⟨_, rc2, rc3⟩ := dropReported_rcount hd r
  rw [← h3] at rc2 rc3
  have hreads6 : ∀ t, readsIn s6.readIds t = if t ∈ D then [] else readsIn s5.readIds t := by
    intro t; rw [h1]; exact hsh.reads t
  have hfinal_mem : ∀ m, m ∈ final ↔ m ∈ s5.models ∧ keepModel (modelKeys reported) m = true := by
    intro m; rw [hf]; simp [List.mem_filter]
  have hnD' := hnD hids5
  unfold ListedUnderChain
  rw [assignContent_chains A s5 reads hreads hids5, assignContent_chains A s6 reads hreads hids6]
  simp only [chainKept, Bool.and_eq_true] at hkept
  obtain ⟨hfr, hoth⟩ := hkept
  by_cases hfreed : ∃ m ∈ s5.models, keepModel (modelKeys reported) m = false ∧ r ∈ readsIn s5.readIds m.tid
  · obtain ⟨m, hm, hkm, hrm⟩ := hfreed
    simp only [freedOk, withheld, List.all_eq_true, List.mem_filter, Bool.and_eq_true, decide_eq_true_eq, Bool.or_eq_true,
      Bool.not_eq_true', and_imp] at hfr
    obtain ⟨⟨⟨hc1, hrin⟩, huniq⟩, hsame⟩ := hfr m hm hkm r hrm
    have huniq' : ∀ m' ∈ s5.models, r ∈ readsIn s5.readIds m'.tid → m' = m := by
      intro m' hm' hr'
      rcases huniq m' hm' with e | e
      · exact eq_of_nodup_ids hids5 hm' hm e
      · exact absurd hr' e
    have hc6 : ¬ cnt s6.rcount r > 0 := by
      have := rc3 hids5 m hm hkm hrm
      clear rc2 rc3 huniq huniq' hfr hoth
      omega
    rintro (⟨m', hm', _, hk', hr'⟩ | ⟨_, hc, _⟩)
    · have := huniq' m' hm' hr'
      subst this
      refine Or.inr ⟨hrin, hc6, ?_⟩
      rw [sameKeys_iff hsame]
      simp [hk']
    · exact absurd (by rw [hc1]; decide) hc
  · have hnot : ∀ m ∈ s5.models, keepModel (modelKeys reported) m = false → r ∉ readsIn s5.readIds m.tid :=
      fun m hm hk hr => hfreed ⟨m, hm, hk, hr⟩
    have hceq := rc2 hnot
    rintro (⟨m, hm, hsn, hk, hr⟩ | ⟨hrin, hc, hk⟩)
    · have hkeep : keepModel (modelKeys reported) m = true := by
        cases hkk : keepModel (modelKeys reported) m with
        | false => exact absurd hr (hnot m hm hkk)
        | true => rfl
      have hmf : m ∈ final := (hfinal_mem m).2 ⟨hm, hkeep⟩
      refine Or.inl ⟨m, by rw [hms]; exact List.mem_append_left _ hmf, hsn, hk, ?_⟩
      rw [hreads6, if_neg (hnD' m (by rw [hsm]; exact hmf))]
      exact hr
    · refine Or.inr ⟨hrin, by rw [hceq]; exact hc, ?_⟩
      simp only [othersKeep, List.all_eq_true, Bool.or_eq_true, decide_eq_true_eq] at hoth
      rcases hoth r hrin with (o1 | o2) | o3
      · exact absurd (mem_freedReads.1 o1) hfreed
      · exact absurd o2 hc
      · exact o3 k hk

/-! ### the chromosome: every record along the two runs -/

/-- the interface facts (read ids of a record pairwise different, transcript ids of a storage pairwise different — C17 —, lines name
    stored models) and the residual predicate for one record -/
def regionOk (A : CAssigner) (keys : List ChainKey) (s5 : Store) (ms6 : List TModel) (reads : List String) : Bool :=
  decide reads.Nodup && decide (ids s5.models).Nodup && decide (ids ms6).Nodup && listsOnlyModels s5 &&
    chainFaithful A keys s5 ms6 reads

/-- `regionOk` for every record, computed along the run of the current code -/
def chrFaithful (A : CAssigner) (next : Nat → Nat) : List RegionIn → ChrState → Bool
  | [], _ => true
  | r :: t, cs =>
    match regionHead next cs r with
    | none => true
    | some (st2, s5) =>
      match s5.dropJoin cs.reported r.span with
      | none => true
      | some (s6, _, rep) =>
        regionOk A (modelKeys cs.reported) s5 s6.models (r.ins2.map (·.read)) && chrFaithful A next t ⟨st2.detected, st2.idv, rep⟩

/-- the statement for a chromosome: at EVERY record, along the run of the current code (`csF`) and of the code before fix b2b4dd9
    (`csO`), the dumped storages list every read under the same (strand, chain)s; the ids of the current code's lines are those of
    the models it dumps and of the copies `em` of earlier models (dumped by an earlier record: `reported_ids_name_reported_models`) -/
def KeepsChains (A : CAssigner) (next : Nat → Nat) : List RegionIn → ChrState → ChrState → Prop
  | [], _, _ => True
  | r :: t, csF, csO =>
    ∀ csF' sF csO' sO, processRegionC .joinEarlier A next csF r = some (csF', sF) →
      processRegionC .none A next csO r = some (csO', sO) →
      (∃ em, earlierModels csF.reported r.span = some em ∧
        ∀ rd k, ListedUnderChain sO.models sO rd k ↔ ListedUnderChain (sF.models ++ em) sF rd k) ∧
      KeepsChains A next t csF' csO'

/-- **reads_keep_their_chain_chromosome.**  `ReadsKeepTheirChain` for ALL inputs, as a relation (the order of the lines of
    `transcript_model_reads` differs: `reads_keep_their_chain_order_witness`): any records, any id source, any heuristic answers, ANY
    content-based assigner — wherever `chrFaithful` holds, every record of the chromosome lists every read under the same
    (strand, chain)s as the code before the fixes did. -/
theorem reads_keep_their_chain_chromosome (A : CAssigner) (next : Nat → Nat) (regs : List RegionIn) (csF csO : ChrState)
    (hdet : csF.detected = csO.detected) (hidv : csF.idv = csO.idv) (hf : chrFaithful A next regs csF = true) :
    KeepsChains A next regs csF csO := by
  induction regs generalizing csF csO with
  | nil => trivial
  | cons r t ih =>
    intro csF' sF csO' sO hF hO
    unfold processRegionC at hF hO
    rw [← regionHead_congr next csF csO r hdet hidv] at hO
    cases hh : regionHead next csF r with
    | none => simp [hh] at hF
    | some p =>
      obtain ⟨st2, s5⟩ := p
      simp only [hh] at hF hO
      split at hF
      · simp at hF
      · rename_i sa ra hta
        split at hO
        · simp at hO
        · rename_i sb rb htb
          simp only [Option.some.injEq, Prod.mk.injEq] at hF hO
          obtain ⟨rfl, rfl⟩ := hF
          obtain ⟨rfl, rfl⟩ := hO
          obtain ⟨s6, final, em, hdj, hem, hms, hmod, hrid⟩ := regionTailC_fixed_spec hta
          obtain ⟨_, hmodO, hridO⟩ := regionTailC_orig_spec htb
          unfold chrFaithful at hf
          simp only [hh, hdj, Bool.and_eq_true] at hf
          obtain ⟨hok, hrest⟩ := hf
          simp only [regionOk, Bool.and_eq_true, decide_eq_true_eq] at hok
          obtain ⟨⟨⟨⟨hr1, hr2⟩, hr3⟩, hr4⟩, hr5⟩ := hok
          refine ⟨⟨em, hem, fun rr k => ?_⟩, ih _ _ rfl rfl hrest⟩
          have hmid := reads_keep_their_chain_region A s5 s6 csF.reported ra r.span final _ hdj hr1 hr2 hr3
            (listsOnlyModels_spec hr4) hr5 rr k
          have h1 : ListedUnderChain sb.models sb rr k ↔
              ListedUnderChain s5.models (s5.assignReads (insOf A (r.ins2.map (·.read)) s5.models)) rr k := by
            unfold ListedUnderChain
            rw [hmodO, hridO]
            exact exists_mem_map_gene _ _ _ _ _
          have h3 : ListedUnderChain s6.models (s6.assignReads (insOf A (r.ins2.map (·.read)) s6.models)) rr k ↔
              ListedUnderChain (sa.models ++ em) sa rr k := by
            unfold ListedUnderChain
            rw [hmod, hrid, exists_mem_append, exists_mem_map_gene, ← exists_mem_append, ← hms]
          exact h1.trans (hmid.trans h3)

/-- from the start of a chromosome task -/
theorem reads_keep_their_chain_all_inputs (A : CAssigner) (next : Nat → Nat) (regs : List RegionIn)
    (hf : chrFaithful A next regs ChrState.init = true) : KeepsChains A next regs ChrState.init ChrState.init :=
  reads_keep_their_chain_chromosome A next regs _ _ rfl rfl hf

/-- `chainKept` (and the interface facts it needs) for every record, computed along the run of the current code -/
def chrKept (A : CAssigner) (next : Nat → Nat) : List RegionIn → ChrState → Bool
  | [], _ => true
  | r :: t, cs =>
    match regionHead next cs r with
    | none => true
    | some (st2, s5) =>
      match s5.dropJoin cs.reported r.span with
      | none => true
      | some (s6, _, rep) =>
        decide (r.ins2.map (·.read)).Nodup && decide (ids s5.models).Nodup && decide (ids s6.models).Nodup &&
          chainKept A (modelKeys cs.reported) s5 s6.models (r.ins2.map (·.read)) && chrKept A next t ⟨st2.detected, st2.idv, rep⟩

/-- at every record: what the code before the fixes listed under a chain, the current code lists under that chain -/
def LosesNoChain (A : CAssigner) (next : Nat → Nat) : List RegionIn → ChrState → ChrState → Prop
  | [], _, _ => True
  | r :: t, csF, csO =>
    ∀ csF' sF csO' sO, processRegionC .joinEarlier A next csF r = some (csF', sF) →
      processRegionC .none A next csO r = some (csO', sO) →
      (∃ em, earlierModels csF.reported r.span = some em ∧
        ∀ rd k, ListedUnderChain sO.models sO rd k → ListedUnderChain (sF.models ++ em) sF rd k) ∧
      LosesNoChain A next t csF' csO'

/-- **no_read_loses_its_chain_chromosome.**  For all inputs with `chrKept`: the defect of fix b2b4dd9 (reads of a withheld copy
    printed `*`) and of fix 0c8e711 cannot occur — at every record every (read, chain) of the code before the fixes is still there.
    `exRegsFew` satisfies `chrKept` (not `chrFaithful`); the polyA-variant input `exRegsApa` satisfies neither. -/
theorem no_read_loses_its_chain_chromosome (A : CAssigner) (next : Nat → Nat) (regs : List RegionIn) (csF csO : ChrState)
    (hdet : csF.detected = csO.detected) (hidv : csF.idv = csO.idv) (hf : chrKept A next regs csF = true) :
    LosesNoChain A next regs csF csO := by
  induction regs generalizing csF csO with
  | nil => trivial
  | cons r t ih =>
    intro csF' sF csO' sO hF hO
    unfold processRegionC at hF hO
    rw [← regionHead_congr next csF csO r hdet hidv] at hO
    cases hh : regionHead next csF r with
    | none => simp [hh] at hF
    | some p =>
      obtain ⟨st2, s5⟩ := p
      simp only [hh] at hF hO
      split at hF
      · simp at hF
      · rename_i sa ra hta
        split at hO
        · simp at hO
        · rename_i sb rb htb
          simp only [Option.some.injEq, Prod.mk.injEq] at hF hO
          obtain ⟨rfl, rfl⟩ := hF
          obtain ⟨rfl, rfl⟩ := hO
          obtain ⟨s6, final, em, hdj, hem, hms, hmod, hrid⟩ := regionTailC_fixed_spec hta
          obtain ⟨_, hmodO, hridO⟩ := regionTailC_orig_spec htb
          unfold chrKept at hf
          simp only [hh, hdj, Bool.and_eq_true, decide_eq_true_eq] at hf
          obtain ⟨⟨⟨⟨hr1, hr2⟩, hr3⟩, hr5⟩, hrest⟩ := hf
          refine ⟨⟨em, hem, fun rr k => ?_⟩, ih _ _ rfl rfl hrest⟩
          have hmid := no_read_loses_its_chain_region A s5 s6 csF.reported ra r.span final _ hdj hr1 hr2 hr3 hr5 rr k
          have h1 : ListedUnderChain sb.models sb rr k ↔
              ListedUnderChain s5.models (s5.assignReads (insOf A (r.ins2.map (·.read)) s5.models)) rr k := by
            unfold ListedUnderChain
            rw [hmodO, hridO]
            exact exists_mem_map_gene _ _ _ _ _
          have h3 : ListedUnderChain s6.models (s6.assignReads (insOf A (r.ins2.map (·.read)) s6.models)) rr k ↔
              ListedUnderChain (sa.models ++ em) sa rr k := by
            unfold ListedUnderChain
            rw [hmod, hrid, exists_mem_append, exists_mem_map_gene, ← exists_mem_append, ← hms]
          exact fun hx => h3.1 (hmid (h1.1 hx))

/-- the run with the computed assigner is a run of the current code: the per-chromosome theorems hold of it, in particular every
    copy `em` that joins a second assignment is a model an earlier record dumped -/
theorem computed_run_is_current_code (A : CAssigner) (next : Nat → Nat) (regs : List RegionIn) (cs' : ChrState) (reps : List Store)
    (h : runChromosomeC .joinEarlier A next regs ChrState.init [] = some (cs', reps)) :
    (∀ p ∈ cs'.reported, ∃ s ∈ reps, ∃ m ∈ s.models, isSplicedNovel m = true ∧ chainKey m = p.1 ∧ SameModel m p.2) ∧
    ((∀ s ∈ reps, ChainsDistinctPerConstructor s) → ChainsDistinctPerChromosome reps) := by
  obtain ⟨regs', _, hr⟩ := runChromosomeC_is_run .joinEarlier A next regs ChrState.init []
  rw [h] at hr
  exact ⟨reported_ids_name_reported_models next regs' cs' reps hr, chains_distinct_per_chromosome next regs' cs' reps hr⟩

/-! ### concrete inputs: non-vacuity, the residual class, why the statement is a relation and not a list -/

/-- a toy CONTENT-based assigner: `geom r` = (introns, polyA site) of read `r`; it names every '+' model of the storage with exactly the
    read's introns whose last exon ends within 100 bp of the read's polyA site (the `apa_delta` test of the real comparison), and
    finds the read consistent iff there is one.  It never looks at an id. -/
def exA (geom : String → List Iv × Int) : CAssigner := fun r cs =>
  let g := geom r
  let ix := (List.range cs.length).filter (fun i => match cs[i]? with
    | some (st, ex) => decide (st = Strand.plus) && decide (junctionsFromBlocks ex = g.1) &&
        (match ex.getLast? with | some e => decide ((e.2 - g.2).natAbs ≤ 100) | none => false)
    | none => false)
  ⟨!ix.isEmpty, ix⟩

/-- reads r4 r5 r6: the isoform `(50,90),(100,200)` with polyA site `e`; r7 r8 r9: another isoform; every other read: the first
    isoform, polyA site 400 -/
def exGeom (e : Int) : String → List Iv × Int := fun r =>
  if r = "r7" ∨ r = "r8" ∨ r = "r9" then ([(50, 90), (100, 250)], 400)
  else if r = "r4" ∨ r = "r5" ∨ r = "r6" then ([(50, 90), (100, 200)], e) else ([(50, 90), (100, 200)], 400)

def exPathC : PathIn :=
  { exPath with path := [(VERTEX_read_start, 30), (50, 90), (100, 250), (VERTEX_polya, 400)],
                reads := [("r7", "g"), ("r8", "g"), ("r9", "g")] }

/-- the reads of the repeated isoform in the later sub-region, with polyA site `e` -/
def exPathBe (e : Int) : PathIn :=
  { exPathB with path := [(VERTEX_read_start, 30), (50, 90), (100, 200), (VERTEX_polya, e)] }

/-- the first sub-region: three reads of the isoform, polyA site 400; nothing is left for the second assignment -/
def exRegA : RegionIn := { exRegion [exPath] with ins2 := [] }

/-- a later sub-region; the reads offered to the second assignment (the recorded answers are ignored by `runChromosomeC`) -/
def exRegLater (e : Int) (paths : List PathIn) (reads : List String) : RegionIn :=
  { exRegion paths with ins2 := reads.map (fun r => ⟨r, false, []⟩), span := some (30, e) }

/-- the later sub-region builds a copy of the repeated isoform (same polyA site) and one fresh isoform -/
def exRegsGood : List RegionIn := [exRegA, exRegLater 400 [exPathB, exPathC] ["r4", "r5", "r6", "r7"]]
/-- the reads of the later sub-region end 1100 bp further out: the polyA-variant class -/
def exRegsApa : List RegionIn := [exRegA, exRegLater 1500 [exPathBe 1500, exPathC] ["r4", "r5", "r6", "r7"]]
/-- the later sub-region holds two reads of the isoform: below the novel cut-off, no local copy -/
def exRegsFew : List RegionIn := [exRegA, exRegLater 400 [] ["r4", "r5"]]

def exKey : ChainKey := (Strand.plus, [(50, 90), (100, 200)])

instance : DecidableEq (String × ChainKey) := inferInstance
instance : DecidableEq (List (String × ChainKey)) := inferInstance

/-- non-vacuity of `reads_keep_their_chain_all_inputs`: the predicate holds on `exRegsGood` (the second record deletes its copy, its
    three reads are freed, the content-based assigner finds them consistent with the model reported first) -/
example : chrFaithful (exA (exGeom 400)) (· + 1) exRegsGood ChrState.init = true := by decide +kernel

/-- **reads_keep_their_chain_order_witness.**  On `exRegsGood` both variants list every read under the same (strand, chain) — but
    `ReadsKeepTheirChain` as it was stated (equality of the LISTS `chrReadChains`) is false even here: the freed reads are appended
    to `transcript_read_ids` after the reads of the models that stay, so the lines of the record come in another order.  The
    statement for all inputs is therefore the relation (`KeepsChains`), not the list. -/
theorem reads_keep_their_chain_order_witness :
    (runChromosomeC .joinEarlier (exA (exGeom 400)) (· + 1) exRegsGood ChrState.init []).map (fun r => chrReadChains r.2) =
      some [("r1", exKey), ("r2", exKey), ("r3", exKey),
            ("r7", (.plus, [(50, 90), (100, 250)])), ("r8", (.plus, [(50, 90), (100, 250)])), ("r9", (.plus, [(50, 90), (100, 250)])),
            ("r4", exKey), ("r5", exKey), ("r6", exKey)] ∧
    (runChromosomeC .none (exA (exGeom 400)) (· + 1) exRegsGood ChrState.init []).map (fun r => chrReadChains r.2) =
      some [("r1", exKey), ("r2", exKey), ("r3", exKey), ("r4", exKey), ("r5", exKey), ("r6", exKey),
            ("r7", (.plus, [(50, 90), (100, 250)])), ("r8", (.plus, [(50, 90), (100, 250)])), ("r9", (.plus, [(50, 90), (100, 250)]))] := by
  decide +kernel

/-- **reads_keep_their_chain_residual_witness** (the class of the finding `split_region_apa_variant`).  The reads of the later
    sub-region end 1100 bp beyond the model the first sub-region reported: the code before the fixes listed them under their own copy
    (a duplicate of the chain); the current code deletes the copy, the assigner — a function of the CONTENT — finds the reads
    inconsistent with the model that is in the output, and they are `*`.  `chrFaithful` is `false` exactly here (clause `freedOk`):
    the predicate is not an artefact of the proof. -/
theorem reads_keep_their_chain_residual_witness :
    chrFaithful (exA (exGeom 1500)) (· + 1) exRegsApa ChrState.init = false ∧
    (runChromosomeC .joinEarlier (exA (exGeom 1500)) (· + 1) exRegsApa ChrState.init []).map
        (fun r => (chrReadChains r.2, r.2.map (fun s => s.dumpR2T.filter (fun p => p.2 = "*")))) =
      some ([("r1", exKey), ("r2", exKey), ("r3", exKey),
             ("r7", (.plus, [(50, 90), (100, 250)])), ("r8", (.plus, [(50, 90), (100, 250)])), ("r9", (.plus, [(50, 90), (100, 250)]))],
            [[], [("r4", "*"), ("r5", "*"), ("r6", "*")]]) ∧
    (runChromosomeC .none (exA (exGeom 1500)) (· + 1) exRegsApa ChrState.init []).map (fun r => chrReadChains r.2) =
      some [("r1", exKey), ("r2", exKey), ("r3", exKey), ("r4", exKey), ("r5", exKey), ("r6", exKey),
            ("r7", (.plus, [(50, 90), (100, 250)])), ("r8", (.plus, [(50, 90), (100, 250)])), ("r9", (.plus, [(50, 90), (100, 250)]))] := by
  decide +kernel

/-- **reads_keep_their_chain_gain_witness.**  The other place where the two variants differ, in the opposite direction: a later
    sub-region with two reads of the isoform builds no local copy; the code before the fixes printed them `*`, the current code
    lists them under the model reported first (round `c04rep2`).  `chrFaithful` is `false` (clause `othersOk`); no read LOSES a chain. -/
theorem reads_keep_their_chain_gain_witness :
    chrFaithful (exA (exGeom 400)) (· + 1) exRegsFew ChrState.init = false ∧
    (runChromosomeC .joinEarlier (exA (exGeom 400)) (· + 1) exRegsFew ChrState.init []).map (fun r => chrReadChains r.2) =
      some [("r1", exKey), ("r2", exKey), ("r3", exKey), ("r4", exKey), ("r5", exKey)] ∧
    (runChromosomeC .none (exA (exGeom 400)) (· + 1) exRegsFew ChrState.init []).map (fun r => chrReadChains r.2) =
      some [("r1", exKey), ("r2", exKey), ("r3", exKey)] := by
  decide +kernel

/-- … hence `ReadsKeepTheirChain` as stated in round `c04rep` (equality with the code before the fixes) is FALSE of the current code
    on the witness of round `c04rep2` (recorded answers): the current code lists two reads more -/
theorem reads_keep_their_chain_few_false : ¬ ReadsKeepTheirChain runChromosomeFixed (· + 1) fewRegions := by
  unfold ReadsKeepTheirChain
  decide +kernel

/-! one constructor: the hypotheses of `reads_keep_their_chain_region` hold together, and the two sides are inhabited -/

def exCopy (e : Int) : TModel :=
  ⟨"chr1", .plus, "transcript3.chr1.nnic", "g", [(30, 49), (91, 99), (201, e)], .novel_not_in_catalog, [(50, 90), (100, 200)]⟩
def exFresh : TModel := ⟨"chr1", .plus, "transcript4.chr1.nnic", "g", [(30, 49), (91, 400)], .novel_not_in_catalog, [(50, 90)]⟩
def exS5 (e : Int) : Store := (Store.empty.addModel (exCopy e) ["r4", "r5", "r6"]).addModel exFresh ["r7"]
def exDict : ModelMap := [(exKey, exFirstModel)]
def exGeom1 (e : Int) : String → List Iv × Int := fun r => if r = "r7" then ([(50, 90)], 400) else ([(50, 90), (100, 200)], e)
def exReads : List String := ["r4", "r5", "r6", "r7", "r8"]
def exS6 (e : Int) : Store := (((exS5 e).dropJoin exDict (some (30, e))).map (·.1)).getD Store.empty

example : ((exS5 400).dropJoin exDict (some (30, 400))).map (fun x => (x.1, x.2.1.map (·.tid))) =
      some (exS6 400, ["transcript4.chr1.nnic"]) ∧
    exReads.Nodup ∧ (ids (exS5 400).models).Nodup ∧ (ids (exS6 400).models).Nodup ∧ listsOnlyModels (exS5 400) = true ∧
    chainFaithful (exA (exGeom1 400)) (modelKeys exDict) (exS5 400) (exS6 400).models exReads = true := by
  decide +kernel

/-- r4 (freed) and r8 (never assigned) are listed under the chain by both; under `transcript3…` by the one, `transcript1…` by the other -/
example : ListedUnderChain (exS5 400).models ((exS5 400).assignReads (insOf (exA (exGeom1 400)) exReads (exS5 400).models)) "r4" exKey ∧
    ListedUnderChain (exS6 400).models ((exS6 400).assignReads (insOf (exA (exGeom1 400)) exReads (exS6 400).models)) "r4" exKey ∧
    ListedUnderChain (exS6 400).models ((exS6 400).assignReads (insOf (exA (exGeom1 400)) exReads (exS6 400).models)) "r8" exKey ∧
    (readsIn ((exS5 400).assignReads (insOf (exA (exGeom1 400)) exReads (exS5 400).models)).readIds "transcript3.chr1.nnic",
     readsIn ((exS6 400).assignReads (insOf (exA (exGeom1 400)) exReads (exS6 400).models)).readIds "transcript1.chr1.nnic") =
      (["r4", "r5", "r6", "r8"], ["r4", "r5", "r6", "r8"]) := by
  unfold ListedUnderChain
  decide +kernel

/-- the polyA-variant class for one constructor: the predicate fails and so does the conclusion -/
example : chainFaithful (exA (exGeom1 1500)) (modelKeys exDict) (exS5 1500) (exS6 1500).models exReads = false ∧
    ListedUnderChain (exS5 1500).models ((exS5 1500).assignReads (insOf (exA (exGeom1 1500)) exReads (exS5 1500).models)) "r4" exKey ∧
    ¬ ListedUnderChain (exS6 1500).models ((exS6 1500).assignReads (insOf (exA (exGeom1 1500)) exReads (exS6 1500).models)) "r4" exKey := by
  unfold ListedUnderChain
  decide +kernel

/-- non-vacuity of `no_read_loses_its_chain_region` where `chainFaithful` fails: the empty storage of a sub-region below the cut-off -/
example : (Store.empty.dropJoin exDict (some (30, 400))).map (fun x =>
      (chainKept (exA (exGeom1 400)) (modelKeys exDict) Store.empty x.1.models ["r4", "r5"],
       chainFaithful (exA (exGeom1 400)) (modelKeys exDict) Store.empty x.1.models ["r4", "r5"],
       decide (ids x.1.models).Nodup)) = some (true, false, true) := by
  decide +kernel

/-- … and on the constructor with a freed copy -/
example : chainKept (exA (exGeom1 400)) (modelKeys exDict) (exS5 400) (exS6 400).models exReads = true ∧
    chainKept (exA (exGeom1 1500)) (modelKeys exDict) (exS5 1500) (exS6 1500).models exReads = false := by
  decide +kernel

/-- non-vacuity of `no_read_loses_its_chain_chromosome` beyond `chrFaithful`; the polyA-variant input fails both -/
example : chrKept (exA (exGeom 400)) (· + 1) exRegsFew ChrState.init = true ∧
    chrKept (exA (exGeom 400)) (· + 1) exRegsGood ChrState.init = true ∧
    chrKept (exA (exGeom 1500)) (· + 1) exRegsApa ChrState.init = false := by
  decide +kernel

end IsoVerif.Props.C04Chain
