/-
C01, FORWARD clause for reads that follow an annotated isoform T with exact splice sites (DESIGN §7 `follow_exact`):
the geometric ⇒ profile direction.  A read that is a contiguous sub-chain of T's exons (5' / 3' truncation anywhere inside
the terminal exons it reaches) gets
  (1) an all-1 intron read profile and a gene intron profile that `equal_profiles_in_range` accepts for T,
  (2) an all-1 split-exon read profile, a gene split-exon profile that `equal_profiles_in_range` accepts for T and that
      shares a present split exon with T (`has_overlapping_features`),
  (3) hence `assign_to_isoform` dispatches it to `match_consistent`, T passes its three tests and is among the candidate
      isoforms; when the assignment comes from the consistent path it has a consistent type, every reported isoform is
      structurally compatible, T is reported under the score hypothesis of `full_length_reported`, and the read is unique
      to T when T is the only compatible isoform.
The intron half is proved for reads WITHIN δ too (`follow_delta_intron_profile`), under the tie-loser reading rule of
DESIGN §6 (each read intron's match in T is STRICTLY the closest annotated intron within δ).
Lemmas: Lemmas/C01FollowIntron.lean (on top of the C13 completeness lemmas), C01SplitSweep.lean, C01FollowGene.lean,
C01Follow.lean.
-/
import IsoVerif.Props.C01Far
import IsoVerif.Lemmas.C01Follow

namespace IsoVerif.Props.C01Follow
open IsoVerif.Gen IsoVerif.Model IsoVerif.Model.C01 IsoVerif.Lemmas IsoVerif.Lemmas.C01 IsoVerif.Lemmas.C13
open IsoVerif.Props.C01 IsoVerif.Props.C01Path IsoVerif.Props.C01Far IsoVerif.Props.C13Profiles

/-! ### (1) + (2): the profiles -/

/-- `follow_exact_profiles`: for ALL annotations / parameters / reads meeting `FollowHyp` (see Lemmas/C01Follow.lean: every
    item decidable), the two read profiles are all 1, both gene profiles are accepted for T by `equal_profiles_in_range`
    over the read's range, and the split-exon gene profile shares a present feature with T's -/
theorem follow_exact_profiles (ms : List Isoform) (g : Gene) (p : Params) (T : IsoInfo) (blocks : List Iv) (pa : PolyA)
    (rp : ReadProf) (H : FollowHyp ms g p T blocks pa) (hrp : constructProfiles g p blocks pa = some rp) :
    (rp.intron.read.length = (junctionsFromBlocks blocks).length ∧ ∀ v ∈ rp.intron.read, v = 1) ∧
    equalProfilesInRange T.intronProf rp.intron.gene rp.intron.range = some true ∧
    (rp.split.read.length = blocks.length ∧ ∀ v ∈ rp.split.read, v = 1) ∧
    equalProfilesInRange T.splitProf rp.split.gene rp.split.range = some true ∧
    hasOverlappingFeatures T.splitProf rp.split.gene (overlap_intervals rp.split.range T.splitRange) = some true := by
  obtain ⟨hi1, hi2⟩ := follow_intron H rp hrp
  obtain ⟨hs0, hs1, hs2, hs3, _⟩ := follow_split H rp hrp
  obtain ⟨_, _, _, _, hprof⟩ := constructProfiles_spec g p blocks pa rp hrp
  have spec := constructOverlapping_spec g.introns (g.start, g.stop) (fun a b => equal_ranges a b p.delta)
      (fun a b => overlaps_at_least a b p.minimal_intron_absence_overlap) p.delta (junctionsFromBlocks blocks)
      rp.region pa.extA pa.extT
  rw [← hprof] at spec
  exact ⟨⟨spec.rlen, hi1⟩, hi2, ⟨hs0, hs1⟩, hs2, hs3⟩

/-- the same, position by position: inside the read's range every non-zero mark of the read's gene profiles is T's mark
    (1 on T's own introns / on the atoms inside T's exons, −1 elsewhere); outside the range the read's marks are 0 by the
    definition of the range -/
theorem follow_exact_profiles_pointwise (ms : List Isoform) (g : Gene) (p : Params) (T : IsoInfo) (blocks : List Iv)
    (pa : PolyA) (rp : ReadProf) (H : FollowHyp ms g p T blocks pa) (hrp : constructProfiles g p blocks pa = some rp)
    (i : Nat) (v : Int) (hv0 : v ≠ 0) :
    (rp.intron.gene[i]? = some v → T.intronProf[i]? = some v) ∧
    (rp.split.gene[i]? = some v → T.splitProf[i]? = some v) := by
  obtain ⟨_, hi2, _, hs2, _⟩ := follow_exact_profiles ms g p T blocks pa rp H hrp
  obtain ⟨_, _, _, _, hprof⟩ := constructProfiles_spec g p blocks pa rp hrp
  obtain ⟨_, _, hrange⟩ := constructProfiles_split_nopolya g p blocks pa rp hrp H.hA H.hT'
  constructor
  · intro hv
    have hr : rp.intron.range = profileRange rp.intron.gene := by rw [hprof]; rfl
    have hin := nonzero_in_range rp.intron.gene i v hv hv0
    rw [← hr] at hin
    have h0 : 0 ≤ rp.intron.range.1 := by rw [hr]; exact (profileRange_bounds _).1
    exact equalProfilesInRange_true _ _ _ hi2 i hin.1 hin.2 h0 v hv hv0
  · intro hv
    have hin := nonzero_in_range rp.split.gene i v hv hv0
    rw [← hrange] at hin
    have h0 : 0 ≤ rp.split.range.1 := by rw [hrange]; exact (profileRange_bounds _).1
    exact equalProfilesInRange_true _ _ _ hs2 i hin.1 hin.2 h0 v hv hv0

/-! ### the intron half within δ (tie-loser reading rule) -/

/-- `follow_delta_intron_profile`: the intron half for reads WITHIN δ, at the level of the profile constructor, for all
    known-feature lists `K` (ordered by start, features at least δ long), read features `R` (well formed, more than δ
    apart), transcript features `TI`: if every read feature has a STRICTLY closest known feature within δ and that one is
    in `TI`, and no feature of `TI` inside the read span `M` is skipped, then every read feature is marked 1 and a known
    feature carries 1 iff it is in `TI` and matched, −1 only if it is not in `TI` and overlaps the span -/
theorem follow_delta_intron_profile (K : List Iv) (gr : Iv) (mio δ : Int) (R TI : List Iv) (M : Iv)
    (hδ : 0 ≤ δ) (hyp : Hyp δ K R) (hf : IntronFollow δ K TI R M) :
    (∀ (j : Nat) (r : Iv), R[j]? = some r →
      (constructOverlapping K gr (fun a b => equal_ranges a b δ) (fun a b => overlaps_at_least a b mio) δ R M
        (-1) (-1)).read[j]? = some 1) ∧
    (∀ (i : Nat) (k : Iv) (v : Int), K[i]? = some k →
      (constructOverlapping K gr (fun a b => equal_ranges a b δ) (fun a b => overlaps_at_least a b mio) δ R M
        (-1) (-1)).gene[i]? = some v → v ≠ 0 →
      (v = 1 ∧ k ∈ TI) ∨ (v = -1 ∧ k ∉ TI ∧ overlaps k M = true)) := by
  constructor
  · intro j r hr
    obtain ⟨t, _, htK, hc, _⟩ := hf.each r (List.mem_of_getElem? hr)
    exact follow_read_marked K gr _ δ R M hyp j r t hr htK hc
  · intro i k v hk hv hv0
    exact follow_gene_marks K gr mio δ R TI M hδ hyp hf i k v hk hv hv0

/-- non-vacuity of `follow_delta_intron_profile`: a read whose two introns are 2 and 3 bases off T's introns, with an
    alternative acceptor 5 bases away in another isoform (δ = 6): hypotheses hold, the profile is [1, −1, 1] -/
example : Hyp 6 [(201, 299), (201, 304), (401, 499)] [(203, 299), (401, 502)] ∧
    (constructOverlapping [(201, 299), (201, 304), (401, 499)] (100, 600) (fun a b => equal_ranges a b 6)
      (fun a b => overlaps_at_least a b 20) 6 [(203, 299), (401, 502)] (120, 580) (-1) (-1)).gene = [1, -1, 1] ∧
    StrictBest 6 [(201, 299), (201, 304), (401, 499)] (203, 299) (201, 299) := by
  refine ⟨⟨by simp [SortedStarts], by simp [LongerThan], by simp [SepBy], by simp [WFR]⟩, by decide +kernel, ?_⟩
  refine ⟨by simp, by decide, ?_⟩
  intro k hk hne _
  simp at hk
  rcases hk with rfl | rfl | rfl
  · exact absurd rfl hne
  · decide
  · decide

/-! ### (3): dispatch, candidates, assignment -/

/-- `follow_exact_dispatch`: the read is sent to `match_consistent` -/
theorem follow_exact_dispatch (ms : List Isoform) (g : Gene) (p : Params) (T : IsoInfo) (blocks : List Iv) (pa : PolyA)
    (rp : ReadProf) (H : FollowHyp ms g p T blocks pa) (hrp : constructProfiles g p blocks pa = some rp) :
    dispatch g rp = .consistent := by
  obtain ⟨hi1, _⟩ := follow_intron H rp hrp
  obtain ⟨hs0, hs1, _, _, ⟨i1, hi1'⟩⟩ := follow_split H rp hrp
  obtain ⟨_, hreg, _, _, _⟩ := constructProfiles_spec g p blocks pa rp hrp
  obtain ⟨f, l, hf, _, _, _, _⟩ := follow_region H rp.region hreg
  have hbne : 0 < blocks.length := by
    have : blocks[0]? = some f := by rw [← List.head?_eq_getElem?]; exact hf
    exact getElem?_lt this
  have hsne : 0 < rp.split.read.length := by omega
  -- some exon exists
  obtain ⟨a0, hfa⟩ := H.hf
  obtain ⟨e, he, _⟩ := hfa 0 f (by rw [← List.head?_eq_getElem?]; exact hf)
  have heg : e ∈ g.exons := exons_in_gene H e (List.mem_of_getElem? he)
  unfold dispatch
  split
  · rename_i h
    simp [List.isEmpty_iff] at h
    rw [h] at heg; cases heg
  · split
    · rename_i h
      exfalso
      simp only [List.all_eq_true, decide_eq_true_eq] at h
      rcases h with h | h
      · have hm : rp.split.read[0] ∈ rp.split.read := List.getElem_mem hsne
        exact h _ hm (hs1 _ hm)
      · have := h 1 (List.mem_of_getElem? hi1')
        omega
    · split
      · rename_i h
        exfalso
        simp only [List.any_eq_true, decide_eq_true_eq] at h
        rcases h with ⟨v, hv, e⟩ | ⟨v, hv, e⟩
        · have := hi1 v hv; omega
        · have := hs1 v hv; omega
      · split
        · rename_i h
          exfalso
          simp only [List.any_eq_true, decide_eq_true_eq] at h
          rcases h with ⟨v, hv, e⟩ | ⟨v, hv, e⟩
          · have := hi1 v hv; omega
          · have := hs1 v hv; omega
        · rfl

/-- T passes the three tests of `match_consistent` -/
theorem follow_exact_tests (ms : List Isoform) (g : Gene) (p : Params) (T : IsoInfo) (blocks : List Iv) (pa : PolyA)
    (rp : ReadProf) (H : FollowHyp ms g p T blocks pa) (hrp : constructProfiles g p blocks pa = some rp) :
    contains_approx T.region rp.region p.min_abs_exon_overlap = true ∧
    hasOverlappingFeatures T.splitProf rp.split.gene (overlap_intervals rp.split.range T.splitRange) = some true ∧
    equalProfilesInRange T.intronProf rp.intron.gene rp.intron.range = some true := by
  obtain ⟨_, h3, _, _, h2⟩ := follow_exact_profiles ms g p T blocks pa rp H hrp
  obtain ⟨_, hreg, _, _, _⟩ := constructProfiles_spec g p blocks pa rp hrp
  obtain ⟨f, l, _, _, hregeq, hr1, hr2⟩ := follow_region H rp.region hreg
  refine ⟨?_, h2, h3⟩
  have := H.hmao
  rw [hregeq]
  simp only [contains_approx, Bool.and_eq_true, decide_eq_true_eq]
  omega

/-- the polyA hypothesis of `consistent_path_sound` holds trivially (no polyA / polyT position) -/
theorem follow_polya_outside (ms : List Isoform) (g : Gene) (p : Params) (T : IsoInfo) (blocks : List Iv) (pa : PolyA)
    (H : FollowHyp ms g p T blocks pa) : PolyAOutside blocks pa :=
  ⟨Or.inl H.hA, Or.inl H.hT'⟩

/-- T itself is structurally compatible with the read -/
theorem follow_exact_compatible (ms : List Isoform) (g : Gene) (p : Params) (T : IsoInfo) (blocks : List Iv) (pa : PolyA)
    (rp : ReadProf) (H : FollowHyp ms g p T blocks pa) (hrp : constructProfiles g p blocks pa = some rp) :
    Compatible p blocks T := by
  obtain ⟨h1, _, h3⟩ := follow_exact_tests ms g p T blocks pa rp H hrp
  obtain ⟨hi1, _⟩ := follow_intron H rp hrp
  exact candidate_compatible ms p blocks pa g rp H.hwf H.hg hrp (follow_polya_outside ms g p T blocks pa H) hi1 T H.hT h1 h3

/-- `follow_exact_assigned_partial`.  FULL statement (DESIGN §7 `follow_exact`): the read's assignment comes from
    `match_consistent`, has a consistent type, reports compatible isoforms only, T among them.
    PROVED (for all annotations / parameters / reads meeting `FollowHyp`; no hypothesis on the profiles any more): the read
    is dispatched to `match_consistent`; T is one of its candidate isoforms; the assignment is produced EITHER by the
    consistent path — then its type is unique / unique_minor_difference / ambiguous, every reported isoform is
    structurally compatible, T is reported whenever its Jaccard-based score is ≥ 2/3 of every candidate's and ≥ −1/2
    (`full_length_reported`), and it is reported alone (unique / unique_minor_difference) when T is the only compatible
    isoform — OR by the fall-back (`match_consistent` returned None).
    MISSING: the exclusion of the fall-back, i.e. that (a) the score resolution keeps at least one candidate and (b) no
    selected isoform gets a major elongation event from `check_read_ends` (for T itself the read ends lie inside its
    exons; for another selected isoform I the read extends at most `min_abs_exon_overlap` beyond I, so (b) holds as soon
    as `min_abs_exon_overlap ≤ minor_exon_extension` — true of every preset); carried by the correspondence and the
    oracle. -/
theorem follow_exact_assigned_partial (ms : List Isoform) (g : Gene) (p : Params) (T : IsoInfo) (blocks : List Iv)
    (pa : PolyA) (rp : ReadProf) (cj : Nat → Option (List Event)) (a : Assignment) (path : Path)
    (H : FollowHyp ms g p T blocks pa) (hrp : constructProfiles g p blocks pa = some rp)
    (h : assignToIsoform g p rp cj = some (a, path)) :
    dispatch g rp = .consistent ∧
    (∃ cons, consistentIsoforms g p rp = some (some cons) ∧ T ∈ cons) ∧
    ((path = .consistent ∧ a.ty.is_consistent = true ∧ a.isoMatches ≠ [] ∧
        (∀ m ∈ a.isoMatches, ∃ I ∈ g.isos, m.iso = some I.id ∧ Compatible p blocks I) ∧
        (∀ sT, jaccardScore p rp T = some sT →
          (∀ I ∈ g.isos, ∀ s, jaccardScore p rp I = some s → s ≤ sT * topScoredFactor) → minimalScore ≤ sT →
          ∃ m ∈ a.isoMatches, m.iso = some T.id) ∧
        ((∀ I ∈ g.isos, Compatible p blocks I → I = T) →
          (a.ty = .unique ∨ a.ty = .unique_minor_difference) ∧ ∃ m, a.isoMatches = [m] ∧ m.iso = some T.id)) ∨
      (path = .fallback ∧ matchConsistent g p rp = some none)) := by
  have hdisp := follow_exact_dispatch ms g p T blocks pa rp H hrp
  obtain ⟨h1, h2, h3⟩ := follow_exact_tests ms g p T blocks pa rp H hrp
  obtain ⟨hcand, _⟩ := follow_exact_partial g p rp cj a path T H.hT hdisp h1 h2 h3 h
  have hpa := follow_polya_outside ms g p T blocks pa H
  refine ⟨hdisp, hcand, ?_⟩
  obtain ⟨_, _, _, h4⟩ := path_of_dispatch g p rp cj a path h
  rcases h4 hdisp with ⟨hp, hmc⟩ | ⟨hp, hmc, _⟩
  · left
    obtain ⟨hty, hne, hall⟩ := consistent_path_sound ms p blocks pa g rp a H.hwf H.hg hrp hpa hdisp hmc
    refine ⟨hp, hty, hne, hall, ?_, ?_⟩
    · intro sT hs hbest hmin
      obtain ⟨cons, hcons, hT⟩ := hcand
      obtain ⟨_, _, _, hs2, _⟩ := follow_exact_profiles ms g p T blocks pa rp H hrp
      apply full_length_reported g p rp a cons T sT hmc hcons hT (fun _ => hs2) hs ?_ hmin
      intro I hI s hIs
      exact hbest I (consistentIsoforms_mem g p rp cons hcons I hI).1 s hIs
    · intro honly
      exact unique_when_only ms p blocks pa g rp a T H.hwf H.hg hrp hpa hdisp hmc honly
  · right; exact ⟨hp, hmc⟩

/-! ### non-vacuity: the hypotheses are met by concrete annotations and reads (also replayed on the real code) -/

def fxParams : Params :=
  { delta := 6, minor_exon_extension := 50, major_exon_extension := 300, min_abs_exon_overlap := 10, apa_delta := 50,
    minimal_exon_overlap := 5, minimal_intron_absence_overlap := 20, max_fake_terminal_exon_len := 40,
    max_missed_exon_len := 100, resolve_ambiguous := .monoexon_and_fsm }

/-- T = isoform 0; isoform 1 skips T's second exon, isoform 2 has an alternative acceptor 4 bases inside T's third exon
    (within δ), isoform 3 is a mono-exon transcript inside T's first intron -/
def fxAnnotation : List Isoform :=
  [⟨[(100, 200), (300, 400), (500, 600), (700, 800)], .plus⟩, ⟨[(100, 200), (500, 600), (700, 800)], .plus⟩,
   ⟨[(100, 200), (300, 400), (504, 600)], .plus⟩, ⟨[(230, 260)], .minus⟩]

def fxNoPolyA : PolyA := ⟨-1, -1, -1, -1⟩

/-- a 5'- and 3'-truncated read of T: starts inside exon 2, ends inside exon 4; the first block keeps 4 bases
    < `minimal_exon_overlap` = 5 (it ends at the exon end: `FollowHyp` has no length condition for spliced reads) -/
def fxBlocks : List Iv := [(397, 400), (500, 600), (700, 730)]

theorem fx_followsExact : FollowsExact [(100, 200), (300, 400), (500, 600), (700, 800)] fxBlocks := by
  refine ⟨1, ?_⟩
  intro j b hj
  match j, hj with
  | 0, h => simp [fxBlocks] at h; subst h; exact ⟨(300, 400), by simp, by decide, by decide, by simp, by simp [fxBlocks]⟩
  | 1, h => simp [fxBlocks] at h; subst h; exact ⟨(500, 600), by simp, by decide, by decide, by simp, by simp [fxBlocks]⟩
  | 2, h => simp [fxBlocks] at h; subst h; exact ⟨(700, 800), by simp, by decide, by decide, by simp, by simp [fxBlocks]⟩
  | n + 3, h => simp [fxBlocks] at h

/-- every hypothesis of `FollowHyp` holds for this input, and the model assigns the read uniquely to T on the consistent
    path (isoform 2's acceptor is within δ of T's but loses the tie) -/
example : ∃ g T, Gene.fromModels fxAnnotation = some g ∧ g.isos[0]? = some T ∧
    FollowHyp fxAnnotation g fxParams T fxBlocks fxNoPolyA ∧
    view (assignRead fxAnnotation fxParams fxBlocks fxNoPolyA (fun _ => none)) = some (.unique, [some 0], .consistent) := by
  have hg : ∃ g, Gene.fromModels fxAnnotation = some g := by
    cases h : Gene.fromModels fxAnnotation with
    | none => exact absurd h (by decide +kernel)
    | some g => exact ⟨g, rfl⟩
  obtain ⟨g, hg⟩ := hg
  have hi : g.introns = [(201, 299), (201, 499), (401, 499), (401, 503), (601, 699)] := by
    have : (Gene.fromModels fxAnnotation).map (·.introns) =
        some [(201, 299), (201, 499), (401, 499), (401, 503), (601, 699)] := by decide +kernel
    rw [hg] at this; simpa using this
  have hT : ∃ T, g.isos[0]? = some T ∧ T.exons = [(100, 200), (300, 400), (500, 600), (700, 800)] := by
    have : ((Gene.fromModels fxAnnotation).bind (fun g => g.isos[0]?)).map (·.exons) =
        some [(100, 200), (300, 400), (500, 600), (700, 800)] := by decide +kernel
    rw [hg] at this
    cases h0 : g.isos[0]? with
    | none => simp [h0] at this
    | some T => simp [h0] at this; exact ⟨T, rfl, this⟩
  obtain ⟨T, hT0, hTe⟩ := hT
  refine ⟨g, T, hg, hT0, ?_, by decide +kernel⟩
  refine { hg := hg, hwf := ?_, hnn := ?_, hT := List.mem_of_getElem? hT0, hTg := ?_, hδ := by decide, hmao := by decide,
           hlong := ?_, hB := ?_, hf := ?_, hsep := ?_, hsingle := ?_, hA := rfl, hT' := rfl }
  · intro m hm
    simp [fxAnnotation] at hm
    rcases hm with rfl | rfl | rfl | rfl <;> (constructor <;> simp [SD, WFl])
  · intro m hm e he
    simp [fxAnnotation] at hm
    rcases hm with rfl | rfl | rfl | rfl <;> simp at he <;> (try rcases he with rfl | rfl | rfl | rfl) <;>
      (try rcases he with rfl | rfl | rfl) <;> (try subst he) <;> decide
  · rw [hTe]; simp [Gapped]
  · rw [hi]; simp [LongerThan, fxParams]
  · simp [fxBlocks, Gapped]
  · rw [hTe]; exact fx_followsExact
  · simp [fxBlocks, junctionsFromBlocks, SepBy, fxParams]
  · intro b hb
    simp [fxBlocks] at hb

end IsoVerif.Props.C01Follow
