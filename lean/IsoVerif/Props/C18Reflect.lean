/-
C18 / C11 (audit C11-G3) — the Canonical flag under strand reflection.

Reverse-complementing the chromosome and mirroring the introns (`x ↦ L + 1 − x`, list reversed) turns a `+` record into a
`-` record and leaves a record of unknown strand (`.`) a record of unknown strand.  The flag must be the same on both
sides.  For `+` / `-` this follows from the tables being each other's mirror image; for `.` it holds for the repaired
`check_sites_are_canonical` (`.` = canonical on `+` or canonical on `-`) and FAILED for the function before the repair,
which looked `.` up as `-` (`dot_flag_orig_reflection_witness`: GT–AG chain False, its mirror image True).

All sequences (mixed case: soft-masked bases are complemented within their case), all intron lists inside the
chromosome, all memo states.
-/
import IsoVerif.Props.C18
import IsoVerif.Lemmas.CanonicalReflect

namespace IsoVerif.Props.C18Reflect
open IsoVerif.Gen IsoVerif.Model IsoVerif.Model.C18 IsoVerif.Lemmas.C18 IsoVerif.Props.C18

/-- the same intron on the reverse-complemented chromosome of length `L` (1-based closed coordinates) -/
def mirrorIv (L : Int) (it : Iv) : Iv := (L + 1 - it.2, L + 1 - it.1)

/-- the same intron chain on the reverse-complemented chromosome, in coordinate order again -/
def mirrorIntrons (L : Int) (l : List Iv) : List Iv := (l.map (mirrorIv L)).reverse

def flipStrand : Strand → Strand
  | .plus => .minus
  | .minus => .plus
  | .dot => .dot

/-- the intron lies inside the chromosome with both dinucleotides (the statement's "in the reference FASTA") -/
def InsideChr (chr : Seq) (it : Iv) : Prop :=
  1 ≤ it.1 ∧ it.1 + 1 ≤ chr.length ∧ 2 ≤ it.2 ∧ it.2 ≤ chr.length

/-- the generated tables are each other's mirror image (sides swapped, reversed, complemented); `decide` over the tables
    re-extracted from /repo on every run -/
theorem mirror_dual_tables :
    (∀ p ∈ fwdSites, mirrorSite p ∈ revSites) ∧ (∀ p ∈ revSites, mirrorSite p ∈ fwdSites) := by decide

theorem isFwd_mirrorSite (p : Site) : isFwd (mirrorSite p) = isRev p := by
  rw [Bool.eq_iff_iff]
  simp only [isFwd, isRev, List.contains_iff_mem]
  constructor
  · intro h
    have := mirror_dual_tables.1 _ h
    rwa [mirrorSite_involutive] at this
  · intro h; exact mirror_dual_tables.2 _ h

theorem isRev_mirrorSite (p : Site) : isRev (mirrorSite p) = isFwd p := by
  have := isFwd_mirrorSite (mirrorSite p)
  rw [mirrorSite_involutive] at this
  exact this.symm

/-- one intron, definite strand: canonical on `st` in the chromosome ⇔ canonical on the opposite strand in the reverse
    complement at the mirrored position -/
theorem canonCompute_reflect (chr : Seq) (it : Iv) (h : InsideChr chr it) (st : Strand) (hst : st ≠ .dot) :
    canonCompute ⟨rcSeq chr, 1⟩ (mirrorIv chr.length it) (flipStrand st) = canonCompute ⟨chr, 1⟩ it st := by
  obtain ⟨h1, h1', h2, h2'⟩ := h
  simp only [canonCompute, mirrorIv]
  rw [mirror_site chr it h1 h1' h2 h2']
  cases st with
  | plus => simp [flipStrand, isRev_mirrorSite]
  | minus => simp [flipStrand, isFwd_mirrorSite]
  | dot => exact absurd rfl hst

theorem all_reflect (chr : Seq) (introns : List Iv) (hin : ∀ it ∈ introns, InsideChr chr it) (st : Strand) (hst : st ≠ .dot) :
    ((mirrorIntrons chr.length introns).all fun it => canonCompute ⟨rcSeq chr, 1⟩ it (flipStrand st)) =
      (introns.all fun it => canonCompute ⟨chr, 1⟩ it st) := by
  rw [Bool.eq_iff_iff]
  simp only [mirrorIntrons, List.all_eq_true, List.mem_reverse, List.mem_map]
  constructor
  · intro h it hit
    rw [← canonCompute_reflect chr it (hin it hit) st hst]
    exact h _ ⟨it, hit, rfl⟩
  · rintro h _ ⟨it, hit, rfl⟩
    rw [canonCompute_reflect chr it (hin it hit) st hst]
    exact h it hit

/-- **canonical_flag_reflection** — the answer the statement demands is reflection-equivariant for EVERY strand value:
    the mirrored chain on the reverse complement, reported on the flipped strand (`.` stays `.`), gets the same flag -/
theorem canonical_flag_reflection (chr : Seq) (introns : List Iv) (st : Strand)
    (hin : ∀ it ∈ introns, InsideChr chr it) :
    pureAnswer ⟨rcSeq chr, 1⟩ (mirrorIntrons chr.length introns) (flipStrand st) = pureAnswer ⟨chr, 1⟩ introns st := by
  have hp := all_reflect chr introns hin .plus (by decide)
  have hm := all_reflect chr introns hin .minus (by decide)
  simp only [flipStrand] at hp hm
  cases st with
  | plus => simp only [flipStrand, pureAnswer, pureAll]; simpa using hp
  | minus => simp only [flipStrand, pureAnswer, pureAll]; simpa using hm
  | dot =>
    simp only [flipStrand, pureAnswer, pureAll, if_true]
    rw [hp, hm, Bool.or_comm]

/-- **dot_flag_reflection_invariant** (audit C11-G3, the clause asked for): the flag of a record of unknown strand does
    not depend on the orientation of the locus -/
theorem dot_flag_reflection_invariant (chr : Seq) (introns : List Iv) (hin : ∀ it ∈ introns, InsideChr chr it) :
    pureAnswer ⟨rcSeq chr, 1⟩ (mirrorIntrons chr.length introns) .dot = pureAnswer ⟨chr, 1⟩ introns .dot :=
  canonical_flag_reflection chr introns .dot hin

/-- the same about the function with its memo: whatever was asked before on either side (any reachable memo states), the
    real answers agree -/
theorem check_sites_reflection (chr : Seq) (introns : List Iv) (st : Strand) (hin : ∀ it ∈ introns, InsideChr chr it)
    {σ σ' : CanonMemo} (h : Reachable ⟨chr, 1⟩ σ) (h' : Reachable ⟨rcSeq chr, 1⟩ σ') :
    (checkSites ⟨rcSeq chr, 1⟩ (mirrorIntrons chr.length introns) (flipStrand st) σ').1 =
      (checkSites ⟨chr, 1⟩ introns st σ).1 := by
  rw [canonical_pure h, canonical_pure h', canonical_flag_reflection chr introns st hin]

/-- a window of the chromosome loaded by `set_reference_sequence` on either side: the flags still agree (composition with
    `flag_independent_of_region`) -/
theorem window_flag_reflection (chr : Seq) (introns : List Iv) (st : Strand) (hin : ∀ it ∈ introns, InsideChr chr it)
    (s e s' e' : Int) (hs : 1 ≤ s) (hs' : 1 ≤ s')
    (hw : ∀ it ∈ introns, s ≤ it.1 ∧ it.1 + 1 ≤ e ∧ s < it.2 ∧ it.2 ≤ e)
    (hw' : ∀ it ∈ mirrorIntrons chr.length introns, s' ≤ it.1 ∧ it.1 + 1 ≤ e' ∧ s' < it.2 ∧ it.2 ≤ e') :
    pureAnswer (setReferenceSequence (rcSeq chr) s' e').1 (mirrorIntrons chr.length introns) (flipStrand st) =
      pureAnswer (setReferenceSequence chr s e).1 introns st := by
  rw [(flag_independent_of_region chr s e introns st hs hw).1,
      (flag_independent_of_region (rcSeq chr) s' e' _ (flipStrand st) hs' hw').1]
  exact canonical_flag_reflection chr introns st hin

/-- **dot_flag_orig_reflection_witness** (`_witness`; replayed on the real code by the oracle, `WITNESSES`): before the
    repair the GT–AG intron (5,14) of `AAAAGTCCCCCCAGTTTT` reported on strand `.` answers False, its mirror image — the
    intron (5,14) of the reverse complement `AAAACTGGGGGGACTTTT` — answers True; after the repair both answer True -/
theorem dot_flag_orig_reflection_witness :
    rcSeq witnessSeq = "AAAACTGGGGGGACTTTT".toList ∧ mirrorIntrons 18 [(5, 14)] = [(5, 14)] ∧
    (checkSitesOrig ⟨witnessSeq, 1⟩ [(5, 14)] .dot []).1 = false ∧
    (checkSitesOrig ⟨rcSeq witnessSeq, 1⟩ (mirrorIntrons 18 [(5, 14)]) .dot []).1 = true ∧
    (checkSites ⟨witnessSeq, 1⟩ [(5, 14)] .dot []).1 = true ∧
    (checkSites ⟨rcSeq witnessSeq, 1⟩ (mirrorIntrons 18 [(5, 14)]) .dot []).1 = true := by
  decide

/-! ### non-vacuity -/

example : InsideChr witnessSeq (5, 14) := by
  unfold InsideChr; decide

-- a soft-masked two-intron chain, one GT-AG and one GC-AG: canonical on '+', so True for '.', and so is its mirror image
example : pureAnswer ⟨"aaGTccAGttGCaaAGtt".toList, 1⟩ [(3, 8), (11, 16)] .dot = true ∧
    pureAnswer ⟨rcSeq "aaGTccAGttGCaaAGtt".toList, 1⟩ (mirrorIntrons 18 [(3, 8), (11, 16)]) .dot = true ∧
    pureAnswer ⟨rcSeq "aaGTccAGttGCaaAGtt".toList, 1⟩ (mirrorIntrons 18 [(3, 8), (11, 16)]) .minus = true ∧
    pureAnswer ⟨rcSeq "aaGTccAGttGCaaAGtt".toList, 1⟩ (mirrorIntrons 18 [(3, 8), (11, 16)]) .plus = false ∧
    rcSeq "aaGTccAGttGCaaAGtt".toList = "aaCTttGCaaCTggACtt".toList := by decide

-- reachable memo states on both sides (hypotheses of `check_sites_reflection`)
example : Reachable ⟨witnessSeq, 1⟩ (checkSites ⟨witnessSeq, 1⟩ [(5, 14)] .minus []).2 ∧
    Reachable ⟨rcSeq witnessSeq, 1⟩ (checkSites ⟨rcSeq witnessSeq, 1⟩ [(5, 14)] .dot []).2 :=
  ⟨Reachable.query [] _ _ Reachable.fresh, Reachable.query [] _ _ Reachable.fresh⟩

-- windows on both sides (hypotheses of `window_flag_reflection`)
example : (∀ it ∈ [((5, 14) : Iv)], (3 : Int) ≤ it.1 ∧ it.1 + 1 ≤ 16 ∧ 3 < it.2 ∧ it.2 ≤ 16) ∧
    (∀ it ∈ mirrorIntrons (witnessSeq.length : Int) [(5, 14)], (2 : Int) ≤ it.1 ∧ it.1 + 1 ≤ 17 ∧ 2 < it.2 ∧ it.2 ≤ 17) := by
  decide

end IsoVerif.Props.C18Reflect
