/-
C05 (also C06 / C10) — the names of the per-chromosome part files: what a chromosome task WRITES is what the merge READS,
whatever the output prefix / experiment name is (audit2-A F1, audit2-B defect 13; repair `fix_prefix_in_suffix`).
Property theorems only; lemmas in IsoVerif/Lemmas/PartNames.lean; model IsoVerif/Model/PartNames.lean.
-/
import IsoVerif.Model.PartNames
import IsoVerif.Model.Schedule
import IsoVerif.Lemmas.PartNames

namespace IsoVerif.Props.C05
open IsoVerif.Model.PartNames IsoVerif.Lemmas.PartNames

/-- **rreplace_is_last_occurrence** (specification of `rreplace` of src/common.py): `s = pre ++ old ++ post` with no occurrence
    of `old` starting right of `pre` gives `pre ++ new ++ post`; a string without `old` is returned unchanged; an empty `old`
    raises (`none`) -/
theorem rreplace_is_last_occurrence (old new pre post : Str) (hne : old ≠ [])
    (h : ∀ i, pre.length < i → ¬ OccursAt old (pre ++ old ++ post) i) :
    rreplace (pre ++ old ++ post) old new = some (pre ++ new ++ post) :=
  rreplace_last old new pre post hne h

theorem rreplace_absent_unchanged (old new s : Str) (hne : old ≠ []) (h : ∀ i, ¬ OccursAt old s i) :
    rreplace s old new = some s := rreplace_absent old new s hne h

/-- non-vacuity: `aXbXc`, the second `X` is the last occurrence -/
example : (∀ i, "aXb".toList.length < i → ¬ OccursAt "X".toList ("aXb".toList ++ "X".toList ++ "c".toList) i) ∧
    rreplace "aXbXc".toList "X".toList "X_1".toList = some "aXbX_1c".toList := by
  refine ⟨?_, by decide⟩
  intro i hi
  have : "aXb".toList.length = 3 := by decide
  rw [this] at hi
  unfold OccursAt
  match i, hi with
  | 4, _ => decide
  | 5, _ => decide
  | (n + 6), _ =>
    have hd : ("aXb".toList ++ "X".toList ++ "c".toList).drop (n + 6) = [] := by
      apply List.drop_eq_nil_of_le
      have : ("aXb".toList ++ "X".toList ++ "c".toList).length = 5 := by decide
      omega
    rw [hd]; decide

/-- **part_name_is_written_name** (full strength, repaired tree): for the file `<dir>/<label><suffix>` the part file of
    chromosome `chr` named by `merge_file_list` is `<dir>/<label>_<chr><suffix>` - the file the chromosome task writes
    (`SampleData(prefix = f"{label}_{chr}")`, same `out_dir`).  NO hypothesis relates `label` and `suffix`: the name does not
    depend on whether the label occurs in the suffix (`-p a`, `t`, `reads`, `gene`, `counts`, `S` + SQANTI-like), in the
    directory (`<output>/<label>/…` always holds it) or in the chromosome name.  `label` may be empty. -/
theorem part_name_is_written_name (dir label suf chr : Str) (hd : DirOk dir) (hl : '/' ∉ label) (hs : '/' ∉ suf) :
    partNameFix (finalName dir label suf) label chr = some (writtenName dir label suf chr) := by
  have hb : '/' ∉ label ++ suf := by simp [hl, hs]
  unfold partNameFix finalName writtenName
  rw [pathSplit_dir_base dir (label ++ suf) hd hb]
  have hp : label.isPrefixOf (label ++ suf) = true := List.isPrefixOf_iff_prefix.2 (List.prefix_append label suf)
  simp only [hp, if_true, List.drop_left]
  rw [pathJoin_dir dir _ hd]
  cases label with
  | nil => simp [partLabel]
  | cons l ls =>
    have : l ≠ '/' := fun e => hl (by simp [e])
    simp [partLabel, this]

/-- hence the whole list: one name per chromosome, in the order of `chr_ids` -/
theorem merge_file_list_is_written_names (dir label suf : Str) (chrs : List Str) (hd : DirOk dir) (hl : '/' ∉ label)
    (hs : '/' ∉ suf) :
    mergeFileList (finalName dir label suf) label chrs = some (chrs.map (writtenName dir label suf)) := by
  unfold mergeFileList
  induction chrs with
  | nil => rfl
  | cons c cs ih =>
    rw [List.mapM_cons, part_name_is_written_name dir label suf c hd hl hs, ih]
    rfl

/-- different chromosomes have different part files (and none of them is the merged file itself) -/
theorem written_names_injective (dir label suf c c' : Str) (h : writtenName dir label suf c = writtenName dir label suf c') :
    c = c' := by
  unfold writtenName partLabel at h
  have h1 := List.append_cancel_left h
  simp only [List.cons.injEq, true_and] at h1
  have h2 : label ++ '_' :: (c ++ suf) = label ++ '_' :: (c' ++ suf) := by simpa using h1
  have h3 := List.append_cancel_left h2
  simp only [List.cons.injEq, true_and] at h3
  exact List.append_cancel_right h3

/-- non-vacuity of the hypotheses, on the failing input of the unrepaired tree -/
example : DirOk "out/a".toList ∧ '/' ∉ "a".toList ∧ '/' ∉ ".transcript_models.gtf".toList := by
  refine ⟨⟨"out/".toList, 'a', by decide, by decide⟩, by decide, by decide⟩

/-- the statement above read on the UNREPAIRED tree (`partNameOrig` = `rreplace` on the whole path) -/
def PartNameOrigCorrect : Prop :=
  ∀ dir label suf chr : Str, DirOk dir → '/' ∉ label → '/' ∉ suf → label ≠ [] →
    partNameOrig (finalName dir label suf) label chr = some (writtenName dir label suf chr)

/-- **part_name_orig_witness**: it is false.  `-p a`, chromosome `chr9`: the unrepaired code looks for
    `out/a/a.tra_chr9nscript_models.gtf` (the last `a` of the path is the one in `transcript`), `merge_files` skips the file
    it cannot find and `os.remove` raises FileNotFoundError: exit code 255 after all the work, nothing merged (replayed on the
    real code by the pipeline oracles of C05 and C10) -/
theorem part_name_orig_witness :
    partNameOrig (finalName "out/a".toList "a".toList ".transcript_models.gtf".toList) "a".toList "chr9".toList
      = some "out/a/a.tra_chr9nscript_models.gtf".toList ∧
    partNameFix (finalName "out/a".toList "a".toList ".transcript_models.gtf".toList) "a".toList "chr9".toList
      = some "out/a/a_chr9.transcript_models.gtf".toList ∧
    ¬ PartNameOrigCorrect := by
  refine ⟨by decide, by decide, ?_⟩
  intro h
  have := h "out/a".toList "a".toList ".transcript_models.gtf".toList "chr9".toList
    ⟨"out/".toList, 'a', by decide, by decide⟩ (by decide) (by decide) (by decide)
  revert this
  decide

/-- the SQANTI-like table with `-p S` (the first recorded member of the family, DESIGN §13.2) -/
theorem part_name_orig_sqanti_witness :
    partNameOrig (finalName "o/S".toList "S".toList ".novel_vs_known.SQANTI-like.tsv".toList) "S".toList "c1".toList
      = some "o/S/S.novel_vs_known.S_c1QANTI-like.tsv".toList := by decide

/-- **part_name_orig_partial**: the unrepaired code names the right file exactly under the hypothesis the harness used to
    build into its prefix pool (`Q7x`, `XQ1`, …): the label does not occur in `<label><suffix>` at any position but the
    first -/
theorem part_name_orig_partial (dir label suf chr : Str) (hne : label ≠ [])
    (hocc : ∀ j, 0 < j → ¬ OccursAt label (label ++ suf) j) :
    partNameOrig (finalName dir label suf) label chr = some (writtenName dir label suf chr) := by
  unfold partNameOrig finalName writtenName
  have h := rreplace_last label (partLabel label chr) (dir ++ ['/']) suf hne (by
    intro i hi hoc
    have hi' : dir.length + 1 < i := by simpa using hi
    obtain ⟨j, rfl⟩ : ∃ j, i = dir.length + 1 + j := ⟨i - (dir.length + 1), by omega⟩
    refine hocc j (by omega) ?_
    unfold OccursAt at hoc ⊢
    have e : (dir ++ ['/'] ++ label ++ suf).drop (dir.length + 1 + j) = (label ++ suf).drop j := by
      have : dir ++ ['/'] ++ label ++ suf = (dir ++ ['/']) ++ (label ++ suf) := by simp
      rw [this, ← List.drop_drop]
      have hl : (dir ++ ['/']).length = dir.length + 1 := by simp
      rw [← hl, List.drop_left]
    rwa [e] at hoc)
  have e1 : dir ++ '/' :: (label ++ suf) = dir ++ ['/'] ++ label ++ suf := by simp
  have e2 : dir ++ '/' :: (partLabel label chr ++ suf) = dir ++ ['/'] ++ partLabel label chr ++ suf := by simp
  rw [e1, e2]
  exact h

/-- non-vacuity: the prefix `Q7x` of the older harness runs meets the hypothesis for every suffix without `Q` -/
example : ∀ j, 0 < j → ¬ OccursAt "Q7x".toList ("Q7x".toList ++ ".gene_counts.tsv".toList) j := by
  intro j hj
  unfold OccursAt
  by_cases h : j < 20
  · have key : ∀ j, j < 20 → 0 < j → ¬ "Q7x".toList <+: ("Q7x".toList ++ ".gene_counts.tsv".toList).drop j := by
      decide
    exact key j h hj
  · have hd : ("Q7x".toList ++ ".gene_counts.tsv".toList).drop j = [] := by
      apply List.drop_eq_nil_of_le
      have : ("Q7x".toList ++ ".gene_counts.tsv".toList).length = 19 := by decide
      omega
    rw [hd]; decide

/-! ### tie to the merge model of C06 (`Model/Schedule.lean`): `partName pre label suf chr` is the written name -/

/-- `Model.C06.partName` (what `mergeFiles`' correspondence feeds as part names) is the written name -/
theorem written_name_is_partName (dir label suf chr : String) :
    writtenName dir.toList label.toList suf.toList chr.toList
      = (IsoVerif.Model.C06.partName (dir ++ "/") label suf chr).toList := by
  simp [writtenName, partLabel, IsoVerif.Model.C06.partName, String.toList_append]

/-! ### auxiliary files named after the reference sequences (audit2-A F4, audit2-B defect 14; repairs
`fix_contig_name_slash`, `fix_aux_file_name_collision`: `check_chromosome_file_names` refuses the run at start-up) -/

/-- **aux_names_disjoint**: a run the check accepts never lets two tasks (or a task and the experiment) share an auxiliary
    file: all names are pairwise different and none holds a path separator in its sequence part -/
theorem aux_names_disjoint (chrs : List Str) (h : auxCheck chrs = true) :
    (allAuxNames chrs).Nodup ∧ ∀ c ∈ chrs, '/' ∉ c := by
  simp only [auxCheck, Bool.and_eq_true, List.all_eq_true, decide_eq_true_eq] at h
  refine ⟨h.2, fun c hc => ?_⟩
  have := h.1 c hc
  simpa using this

/-- **aux_collision_witness** (unrepaired tree: no check): the sequences `chr2` and `chr2_bamstat` share the file
    `<out_raw>_chr2_bamstat` - save file of one, alignment statistics of the other; which task writes last depends on the
    schedule (observed: `--threads 1` exit 0, `--threads 2` AssertionError in some runs): C06 `exit_status_differs:threads`;
    the repaired check refuses both this set and `c/1` -/
theorem aux_collision_witness :
    "chr2_bamstat".toList ∈ auxNamesOrig "chr2".toList ∧ "chr2_bamstat".toList ∈ auxNamesOrig "chr2_bamstat".toList ∧
    auxCheck ["chr2".toList, "chr2_bamstat".toList] = false ∧ auxCheck ["c/1".toList] = false ∧
    auxCheck ["info".toList, "chr1".toList] = false ∧ auxCheck ["multimappers_chr1".toList, "chr1".toList] = false := by
  decide +kernel

/-- non-vacuity: ordinary reference names pass -/
example : auxCheck ["chr1".toList, "chr2".toList, "chr10".toList, "chr1_KI270706v1_random".toList, "HLA-A*01:01".toList] = true := by
  decide +kernel

end IsoVerif.Props.C05
