/-
C11 — reflection of the splice-site strand detection (`get_intron_strand`, `get_strand`, `StrandDetector`):
the *generated* tables CANONICAL_FWD_SITES / CANONICAL_REV_SITES (Gen/Constants.lean, re-translated from
src/common.py on every run) are each other's mirror image — reverse table = every forward pair with the two sides
swapped and each side reverse-complemented — hence the strand read off the splice sites of a mirrored intron is the
opposite strand ('.' stays '.'), for ALL site strings, ALL intron lists and ALL reference sequences.
An edit that reverse-complements the sides without swapping them (or forgets one pair) re-opens
`mirror_dual_canonical_tables` (a `decide` over the whole tables).
-/
import IsoVerif.Model.C11Canonical
import IsoVerif.Lemmas.C11Canonical

namespace IsoVerif.Props.C11Canonical
open IsoVerif.Gen IsoVerif.Model.C11 IsoVerif.Lemmas.C11

/-! ## section: Model/C11Canonical.lean -/

theorem mirrorSites_involutive (p : Sites) : mirrorSites (mirrorSites p) = p := by
  simp [mirrorSites, rcSeq_involutive]

/-- the generated reverse table is the mirror image of the forward table, and vice versa -/
theorem mirror_dual_canonical_tables :
    (∀ p ∈ CANONICAL_FWD_SITES, mirrorSites p ∈ CANONICAL_REV_SITES) ∧
    (∀ p ∈ CANONICAL_REV_SITES, mirrorSites p ∈ CANONICAL_FWD_SITES) ∧
    CANONICAL_FWD_SITES.length = CANONICAL_REV_SITES.length := by decide

theorem mirror_dual_isFwdSite (p : Sites) : isFwdSite (mirrorSites p) = isRevSite p := by
  rw [Bool.eq_iff_iff]
  simp only [isFwdSite, isRevSite, List.contains_iff_mem]
  constructor
  · intro h
    have := mirror_dual_canonical_tables.1 _ h
    rwa [mirrorSites_involutive] at this
  · intro h; exact mirror_dual_canonical_tables.2.1 _ h

theorem mirror_dual_isRevSite (p : Sites) : isRevSite (mirrorSites p) = isFwdSite p := by
  have := mirror_dual_isFwdSite (mirrorSites p)
  rw [mirrorSites_involutive] at this
  exact this.symm

/-- `get_intron_strand` of the mirrored intron is the opposite strand ('.' stays '.'), for ALL site strings -/
theorem mirror_dual_intronStrandOfSites (p : Sites) :
    intronStrandOfSites (mirrorSites p) = flipStrand (intronStrandOfSites p) := by
  simp only [intronStrandOfSites, mirror_dual_isFwdSite, mirror_dual_isRevSite]
  cases isFwdSite p <;> cases isRevSite p <;> decide

/-- `get_strand` (majority vote over the introns) of the mirrored introns is the opposite strand -/
theorem mirror_dual_strandOfSites (l : List Sites) :
    strandOfSites ((l.map mirrorSites).reverse) = flipStrand (strandOfSites l) := by
  simp only [strandOfSites, List.filter_reverse, List.length_reverse, List.isEmpty_reverse, List.isEmpty_map,
    filter_length_map l mirrorSites isFwdSite isRevSite mirror_dual_isFwdSite,
    filter_length_map l mirrorSites isRevSite isFwdSite mirror_dual_isRevSite]
  cases l.isEmpty
  · simp only [Bool.false_eq_true, if_false]
    by_cases h1 : (l.filter isFwdSite).length = (l.filter isRevSite).length
    · simp [h1, flipStrand]
    · have h1' : ¬ ((l.filter isRevSite).length = (l.filter isFwdSite).length) := fun e => h1 e.symm
      simp only [h1, h1', if_false]
      by_cases h2 : (l.filter isRevSite).length < (l.filter isFwdSite).length
      · have : ¬ ((l.filter isFwdSite).length < (l.filter isRevSite).length) := by omega
        simp [h2, this, flipStrand]
      · have : (l.filter isFwdSite).length < (l.filter isRevSite).length := by omega
        simp [h2, this, flipStrand]
  · simp [flipStrand]

example : intronStrandOfSites ("AT", "AC") = "+" ∧ intronStrandOfSites (mirrorSites ("AT", "AC")) = "-" ∧
    mirrorSites ("AT", "AC") = ("GT", "AT") ∧ intronStrandOfSites ("AA", "CC") = "." := by decide

theorem mirror_dual_sitesOfIntron (ref : List Char) (a b : Nat) (ha : 1 ≤ a) (hab : a + 1 ≤ ref.length)
    (hb : 2 ≤ b) (hbn : b ≤ ref.length) :
    sitesOfIntron (rcList ref) (ref.length + 1 - b) (ref.length + 1 - a) = mirrorSites (sitesOfIntron ref a b) := by
  simp only [sitesOfIntron, mirrorSites, rcSeq, String.toList_ofList, rcList, ← List.map_drop, ← List.map_take]
  have e1 := window_reverse ref (ref.length + 1 - b - 1) 2 (by omega)
  have e2 := window_reverse ref (ref.length + 1 - a - 2) 2 (by omega)
  have i1 : ref.length - (ref.length + 1 - b - 1) - 2 = b - 2 := by omega
  have i2 : ref.length - (ref.length + 1 - a - 2) - 2 = a - 1 := by omega
  rw [i1] at e1; rw [i2] at e2
  rw [e1, e2]

theorem mirror_dual_isPlus (p : Sites) : isPlus (mirrorSites p) = isMinus p := by
  simp only [isPlus, isMinus, mirror_dual_intronStrandOfSites]
  rcases intronStrand_cases p with h | h | h <;> rw [h] <;> decide

theorem mirror_dual_isMinus (p : Sites) : isMinus (mirrorSites p) = isPlus p := by
  simp only [isPlus, isMinus, mirror_dual_intronStrandOfSites]
  rcases intronStrand_cases p with h | h | h <;> rw [h] <;> decide

theorem mirror_dual_detectorStrand (l : List Sites) (hasA hasT : Bool) :
    detectorStrand ((l.map mirrorSites).reverse) hasT hasA = flipStrand (detectorStrand l hasA hasT) := by
  simp only [detectorStrand, List.filter_reverse, List.length_reverse,
    filter_length_map l mirrorSites isPlus isMinus mirror_dual_isPlus,
    filter_length_map l mirrorSites isMinus isPlus mirror_dual_isMinus]
  by_cases h1 : (l.filter isPlus).length = (l.filter isMinus).length
  · have h1' : (l.filter isMinus).length = (l.filter isPlus).length := h1.symm
    simp only [h1, if_true]
    cases hasA <;> cases hasT <;> decide
  · have h1' : ¬ ((l.filter isMinus).length = (l.filter isPlus).length) := fun e => h1 e.symm
    simp only [h1, h1', if_false]
    by_cases h2 : (l.filter isMinus).length < (l.filter isPlus).length
    · have : ¬ ((l.filter isPlus).length < (l.filter isMinus).length) := by omega
      simp [h2, this, flipStrand]
    · have : (l.filter isPlus).length < (l.filter isMinus).length := by omega
      simp [h2, this, flipStrand]

theorem mirror_dual_detectorCleanStrand (l : List Sites) :
    detectorCleanStrand ((l.map mirrorSites).reverse) = flipStrand (detectorCleanStrand l) := by
  simp only [detectorCleanStrand, List.filter_reverse, List.length_reverse,
    filter_length_map l mirrorSites isPlus isMinus mirror_dual_isPlus,
    filter_length_map l mirrorSites isMinus isPlus mirror_dual_isMinus]
  by_cases h1 : (l.filter isPlus).length = 0 <;> by_cases h2 : (l.filter isMinus).length = 0
  · simp [h1, h2, flipStrand]
  · have : (l.filter isMinus).length > 0 := Nat.pos_of_ne_zero h2
    simp [h1, h2, this, flipStrand]
  · have : (l.filter isPlus).length > 0 := Nat.pos_of_ne_zero h1
    simp [h1, h2, this, flipStrand]
  · have a : (l.filter isPlus).length > 0 := Nat.pos_of_ne_zero h1
    have b : (l.filter isMinus).length > 0 := Nat.pos_of_ne_zero h2
    simp [h1, h2, flipStrand]

example : detectorStrand [("AT", "AC"), ("AA", "AA")] false false = "+" ∧
    detectorStrand (([("AT", "AC"), ("AA", "AA")].map mirrorSites).reverse) false false = "-" ∧
    sitesOfIntron "CCATGGGGACTT".toList 3 10 = ("AT", "AC") ∧
    sitesOfIntron (rcList "CCATGGGGACTT".toList) (12 + 1 - 10) (12 + 1 - 3) = ("GT", "AT") := by decide

end IsoVerif.Props.C11Canonical
