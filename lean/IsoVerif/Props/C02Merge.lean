/-
C02, part 2 — per-chromosome merge of count tables and statistics, TPM conversion.
(Part 1: IsoVerif/Props/C02.lean.)
-/
import IsoVerif.Model.Counter
import IsoVerif.Model.CounterSpec
import IsoVerif.Lemmas.Counter
import IsoVerif.Lemmas.CounterSteps
import IsoVerif.Props.C02
import IsoVerif.Gen.CounterTables

namespace IsoVerif.Props.C02Merge
open IsoVerif.Gen IsoVerif.Model.C02 IsoVerif.Lemmas.C02 IsoVerif.Props.C02

variable {F : Type} [DecidableEq F]

/-! ## 6. merge of the per-chromosome parts -/

/-- one counter per chromosome (complete feature list, history of calls), each dumped: `none` if a call raises -/
def runChromosomes (s : CountingStrategy) (lvl : Level) (le : F → F → Bool) (oz : Bool) :
    List (List F × List (Event F)) → Option (List (Part F))
  | [] => some []
  | c :: cs =>
    match run s lvl (CState.init c.1) c.2 with
    | none => none
    | some st =>
      match runChromosomes s lvl le oz cs with
      | none => none
      | some ps => some (dump le oz st :: ps)

/-- all calls of the run, chromosome by chromosome -/
def allEvents (chrs : List (List F × List (Event F))) : List (Event F) := chrs.flatMap (·.2)

/-- **merge_sums**: the merged table is the concatenation of the per-chromosome tables, and the merged
    statistics lines are the class counts over ALL calls of the run (`__not_aligned` is replaced by the number of
    unmapped reads of the BAM when that is positive, as `merge_counts` does) -/
theorem merge_sums (s : CountingStrategy) (lvl : Level) (le : F → F → Bool) (oz : Bool)
    (chrs : List (List F × List (Event F))) (parts : List (Part F))
    (h : runChromosomes s lvl le oz chrs = some parts) (unaligned : Nat) :
    (mergeCounts parts unaligned).rows = parts.flatMap (·.rows) ∧
    (mergeCounts parts unaligned).ambiguous = natSum ((allEvents chrs).map (ambiguousClass lvl)) ∧
    (mergeCounts parts unaligned).noFeature = natSum ((allEvents chrs).map noFeatureClass) ∧
    (mergeCounts parts unaligned).notAligned =
      (if unaligned > 0 then unaligned else natSum ((allEvents chrs).map notAlignedClass)) ∧
    (mergeCounts parts unaligned).usable = natSum ((allEvents chrs).map usableClass) := by
  have key : natSum (parts.map (·.ambiguous)) = natSum ((allEvents chrs).map (ambiguousClass lvl)) ∧
      natSum (parts.map (·.noFeature)) = natSum ((allEvents chrs).map noFeatureClass) ∧
      natSum (parts.map (·.notAligned)) = natSum ((allEvents chrs).map notAlignedClass) ∧
      natSum (parts.map (·.usable)) = natSum ((allEvents chrs).map usableClass) := by
    induction chrs generalizing parts with
    | nil =>
      simp only [runChromosomes, Option.some.injEq] at h
      subst h; simp [allEvents]
    | cons c cs ih =>
      simp only [runChromosomes] at h
      cases hr : run s lvl (CState.init c.1) c.2 with
      | none => simp [hr] at h
      | some st =>
        simp only [hr] at h
        cases hrest : runChromosomes s lvl le oz cs with
        | none => simp [hrest] at h
        | some ps =>
          simp only [hrest, Option.some.injEq] at h
          subst h
          have hst := stats_lines s lvl c.1 c.2 st hr le oz
          have := ih ps hrest
          simp only [allEvents, List.flatMap_cons, List.map_append, natSum_append, List.map_cons, natSum_cons] at this ⊢
          omega
  refine ⟨rfl, key.1, key.2.1, ?_, key.2.2.2⟩
  simp only [mergeCounts]
  rw [key.2.2.1]

/-- **merge_table_is_sum**: every row of the merged table comes from one chromosome and carries, rendered by
    `%.2f`, the sum of the documented contributions of that chromosome's calls (or 0 if nothing there confirmed
    the feature) -/
theorem merge_table_is_sum (s : CountingStrategy) (lvl : Level) (le : F → F → Bool) (oz : Bool)
    (chrs : List (List F × List (Event F))) (parts : List (Part F))
    (h : runChromosomes s lvl le oz chrs = some parts) (unaligned : Nat) (f : F) (p : Int)
    (hrow : (f, p) ∈ (mergeCounts parts unaligned).rows) :
    ∃ c ∈ chrs,
      ((∃ e ∈ c.2, confirmsFeature lvl e f) ∧
          p = hundredths (ratSum (c.2.map (fun e => contribution s lvl e f))))
      ∨ ((¬ ∃ e ∈ c.2, confirmsFeature lvl e f) ∧ p = hundredths 0) := by
  simp only [mergeCounts, List.mem_flatMap] at hrow
  obtain ⟨part, hpart, hmem⟩ := hrow
  induction chrs generalizing parts with
  | nil =>
    simp only [runChromosomes, Option.some.injEq] at h
    subst h; simp at hpart
  | cons c cs ih =>
    simp only [runChromosomes] at h
    cases hr : run s lvl (CState.init c.1) c.2 with
    | none => simp [hr] at h
    | some st =>
      simp only [hr] at h
      cases hrest : runChromosomes s lvl le oz cs with
      | none => simp [hrest] at h
      | some ps =>
        simp only [hrest, Option.some.injEq] at h
        subst h
        simp only [List.mem_cons] at hpart
        rcases hpart with rfl | hpart
        · exact ⟨c, by simp, table_is_sum_printed s lvl c.1 c.2 st hr le oz f p hmem⟩
        · obtain ⟨c', hc', hres⟩ := ih ps hrest hpart
          exact ⟨c', by simp [hc'], hres⟩

/-- features are chromosome-local: when no call on another chromosome contributes to `f`, the sum over one
    chromosome's calls is the sum over ALL calls of the run -/
theorem local_sum_eq_total (s : CountingStrategy) (lvl : Level) (chrs : List (List F × List (Event F)))
    (c : List F × List (Event F)) (hc : c ∈ chrs) (hnd : chrs.Nodup) (f : F)
    (hlocal : ∀ c' ∈ chrs, c' ≠ c → ∀ e ∈ c'.2, contribution s lvl e f = 0) :
    ratSum (c.2.map (fun e => contribution s lvl e f))
      = ratSum ((allEvents chrs).map (fun e => contribution s lvl e f)) := by
  unfold allEvents
  rw [ratSum_flatMap_map]
  induction chrs with
  | nil => simp at hc
  | cons x xs ih =>
    simp only [List.nodup_cons] at hnd
    simp only [List.map_cons, ratSum_cons]
    simp only [List.mem_cons] at hc
    rcases hc with rfl | hc
    · have : ratSum (xs.map (fun c' => ratSum (c'.2.map (fun e => contribution s lvl e f)))) = 0 := by
        apply ratSum_map_zero
        intro c' hc'
        apply ratSum_map_zero
        intro e he
        exact hlocal c' (by simp [hc']) (fun heq => hnd.1 (heq ▸ hc')) e he
      rw [this, Rat.add_zero]
    · have hx : ratSum (x.2.map (fun e => contribution s lvl e f)) = 0 := by
        apply ratSum_map_zero
        intro e he
        exact hlocal x (by simp) (fun heq => hnd.1 (heq ▸ hc)) e he
      rw [hx, Rat.zero_add]
      exact ih hc hnd.2 (fun c' hc' hne => hlocal c' (by simp [hc']) hne)

/-! ## 7. TPM -/

omit [DecidableEq F] in
/-- rows of the TPM table: exactly the feature rows of the counts file (up to the first id starting with `_`),
    each printed count multiplied by ONE scale factor; zero values are dropped when `output_zeroes` is off -/
theorem tpm_rows (norm : NormalizationMethod) (oz : Bool) (isStatLike : F → Bool) (rows : List (F × Int))
    (usable : Nat) (f : F) (v : Rat) :
    (f, v) ∈ (countsToTpm norm oz isStatLike rows usable).rows ↔
      ∃ h, (f, h) ∈ tpmInputRows isStatLike rows ∧ v = tpmScale norm isStatLike rows usable * printedValue h ∧
        (oz = true ∨ v ≠ 0) := by
  simp only [countsToTpm, tpmScale, List.mem_filterMap]
  constructor
  · rintro ⟨⟨g, h⟩, hmem, hrow⟩
    cases oz with
    | true =>
      simp only [Bool.not_true, Bool.false_and, Bool.false_eq_true, if_false, Option.some.injEq,
        Prod.mk.injEq] at hrow
      obtain ⟨rfl, rfl⟩ := hrow
      exact ⟨h, hmem, rfl, Or.inl rfl⟩
    | false =>
      simp only [Bool.not_false, Bool.true_and, beq_iff_eq] at hrow
      split at hrow
      · simp at hrow
      · rename_i hne
        simp only [Option.some.injEq, Prod.mk.injEq] at hrow
        obtain ⟨rfl, rfl⟩ := hrow
        exact ⟨h, hmem, rfl, Or.inr hne⟩
  · rintro ⟨h, hmem, rfl, hz⟩
    refine ⟨(f, h), hmem, ?_⟩
    rcases hz with hz | hz
    · simp [hz]
    · simp [hz]

omit [DecidableEq F] in
/-- **tpm_ratio**: all TPM values are the printed counts times one positive factor, hence every ratio (and the
    order) of counts is preserved: `tpm f · count g = tpm g · count f` -/
theorem tpm_ratio (norm : NormalizationMethod) (oz : Bool) (isStatLike : F → Bool) (rows : List (F × Int))
    (usable : Nat) (f g : F) (v w : Rat)
    (hf : (f, v) ∈ (countsToTpm norm oz isStatLike rows usable).rows)
    (hg : (g, w) ∈ (countsToTpm norm oz isStatLike rows usable).rows) :
    0 < tpmScale norm isStatLike rows usable ∧
    ∃ cf cg, (f, cf) ∈ tpmInputRows isStatLike rows ∧ (g, cg) ∈ tpmInputRows isStatLike rows ∧
      v * printedValue cg = w * printedValue cf := by
  obtain ⟨cf, hcf, rfl, _⟩ := (tpm_rows norm oz isStatLike rows usable f v).mp hf
  obtain ⟨cg, hcg, rfl, _⟩ := (tpm_rows norm oz isStatLike rows usable g w).mp hg
  exact ⟨scaleFactor_pos _ _ _, cf, cg, hcf, hcg, by grind⟩

omit [DecidableEq F] in
/-- **tpm_sum** (simple normalisation): when the printed counts have a positive total, the TPM values sum to
    exactly 10^6 (before the `%.6f` rendering) – with or without `output_zeroes` -/
theorem tpm_sum (oz : Bool) (isStatLike : F → Bool) (rows : List (F × Int)) (usable : Nat)
    (hpos : 0 < totalCounts (tpmInputRows isStatLike rows)) :
    ratSum ((countsToTpm NormalizationMethod.simple oz isStatLike rows usable).rows.map Prod.snd) = 1000000 := by
  simp only [countsToTpm]
  rw [ratSum_tpm_rows]
  have hsf : scaleFactor NormalizationMethod.simple usable (totalCounts (tpmInputRows isStatLike rows))
      = 1000000 / totalCounts (tpmInputRows isStatLike rows) := by
    simp [scaleFactor, hpos]
  rw [hsf]
  have hne : totalCounts (tpmInputRows isStatLike rows) ≠ 0 := by grind
  exact Rat.div_mul_cancel hne

omit [DecidableEq F] in
/-- **tpm_usable** (`usable_reads` normalisation, some usable read): each value is `count · 10^6 / usable`, the
    `__unassigned` line is `10^6 · (1 − Σ counts / usable)`, together they sum to 10^6 -/
theorem tpm_usable (oz : Bool) (isStatLike : F → Bool) (rows : List (F × Int)) (usable : Nat)
    (hu : usable ≠ 0) (hne : tpmInputRows isStatLike rows ≠ []) :
    tpmScale NormalizationMethod.usable_reads isStatLike rows usable = 1000000 / (usable : Rat) ∧
    (countsToTpm NormalizationMethod.usable_reads oz isStatLike rows usable).unassigned
      = 1000000 * (1 - totalCounts (tpmInputRows isStatLike rows) / (usable : Rat)) ∧
    ratSum ((countsToTpm NormalizationMethod.usable_reads oz isStatLike rows usable).rows.map Prod.snd)
      + (countsToTpm NormalizationMethod.usable_reads oz isStatLike rows usable).unassigned = 1000000 := by
  have hsf : scaleFactor NormalizationMethod.usable_reads usable (totalCounts (tpmInputRows isStatLike rows))
      = 1000000 / (usable : Rat) := by
    simp [scaleFactor, hu]
  refine ⟨hsf, by simp [countsToTpm, unassignedTpm, hu, hne], ?_⟩
  simp only [countsToTpm]
  rw [ratSum_tpm_rows, hsf]
  simp only [unassignedTpm, hu, hne, ne_eq, not_false_eq_true, and_self, if_true]
  have hun : (usable : Rat) ≠ 0 := by
    have := natCast_pos' usable (Nat.pos_of_ne_zero hu)
    grind
  simp only [totalCounts]
  grind

omit [DecidableEq F] in
/-- no feature id looks like a statistics line ⇒ the conversion sees every row of the counts file -/
theorem tpm_complete (isStatLike : F → Bool) (rows : List (F × Int))
    (h : ∀ r ∈ rows, isStatLike r.1 = false) : tpmInputRows isStatLike rows = rows := by
  unfold tpmInputRows
  induction rows with
  | nil => simp
  | cons r rs ih =>
    have hr := h r (by simp)
    simp only [List.takeWhile_cons, hr, Bool.not_false, if_true]
    rw [ih (fun x hx => h x (by simp [hx]))]

/-! ## 8. the statistics-line protocol between the writers and the TPM reader (generated tables) -/

/-- **stat_protocol** (generated from `dump_ungrouped`, `merge_counts`, `convert_counts_to_tpm` on every run):
    the TPM reader ends the feature rows only at exact statistics-line names, and these are exactly the names
    the writers emit – so with `tpm_complete` every feature row of the counts file is converted whatever its id.
    (False of the pinned tree before the `fix:` commit: the reader stopped at any line starting with `_`;
    see `tpm_underscore_witness`.) -/
theorem stat_protocol :
    tpm_stop_exact = true ∧ (∀ n ∈ merge_stat_names, n ∈ tpm_stop_names) ∧
    (∀ n ∈ dump_stat_names, n ∈ tpm_stop_names) ∧ (∀ n ∈ tpm_stop_names, n ∈ dump_stat_names) := by decide

/-- the model's renderings (`hundredths`, `millionths`) are the formats the code prints with -/
theorem print_formats : count_decimals = 2 ∧ tpm_decimals = 6 := by decide

/-- the reader of the unfixed tree (`line.startswith('_')`), on ids 0 = an id starting with `_`, others normal -/
def underscoreStopBuggy (f : Nat) : Bool := f == 0

/-- **tpm_underscore_witness**: with the old stop rule a feature whose id starts with `_` cuts the TPM table:
    the rows after it are lost and the remaining values are rescaled as if they were the whole table
    (replayed on the real code by the oracle: gene ids `A, _B, C`). -/
theorem tpm_underscore_witness :
    (countsToTpm NormalizationMethod.simple true underscoreStopBuggy [(1, 100), (0, 100), (2, 200)] 4).rows
      = [(1, 1000000)] := by decide +kernel

/-! ## 9. a feature id that starts with `#` (repairs `fix_merge_header`, `fix_tpm_header`)

`mergeCounts` / `countsToTpm` describe the repaired code: the header of a counts file is its first line, every later
line is a row whatever its id (`merge_sums`, `tpm_rows`, `tpm_complete` carry no hypothesis on the ids).  The
behaviour of the tree before the repairs is kept as `mergeCountsOrig` / `countsToTpmOrig`. -/

/-- `line.startswith('#')` on a feature id -/
def isHashId (f : String) : Bool := f.toList.head? == some '#'

def hashPart1 : Part String := { rows := [("A1", 300), ("B1", 200)], ambiguous := 0, noFeature := 0, notAligned := 0, usable := 5 }
def hashPart2 : Part String := { rows := [("#G2", 400), ("C2", 100)], ambiguous := 0, noFeature := 0, notAligned := 0, usable := 5 }

/-- **merge_hash_witness**: with the header test by content of the unrepaired tree the gene `#G2` - first row of the
    second per-chromosome file, 4 uniquely assigned reads - has no row in the merged table; the repaired merge keeps
    all four rows (replayed on the real code: fixed cases 100003/100004 of the merge correspondence, pipeline run
    `hash_id`; audit probe C02_hash_id.py) -/
theorem merge_hash_witness :
    (mergeCountsOrig isHashId [hashPart1, hashPart2] 0).rows = [("A1", 300), ("B1", 200), ("C2", 100)] ∧
    (mergeCounts [hashPart1, hashPart2] 0).rows = [("A1", 300), ("B1", 200), ("#G2", 400), ("C2", 100)] := by
  decide +kernel

/-- **tpm_hash_witness**: on the first per-chromosome file the row `#count7` survived the old merge, but both loops of
    the old `convert_counts_to_tpm` skipped it: it had no TPM row and the other values were rescaled as if they were the
    whole table (750000 / 250000); the repaired reader converts every row (500000 / 375000 / 125000) -/
theorem tpm_hash_witness :
    (countsToTpmOrig NormalizationMethod.simple true (fun _ => false) isHashId
        [("#count7", 400), ("A1", 300), ("C2", 100)] 8).rows = [("A1", 750000), ("C2", 250000)] ∧
    (countsToTpm NormalizationMethod.simple true (fun _ => false)
        [("#count7", 400), ("A1", 300), ("C2", 100)] 8).rows = [("#count7", 500000), ("A1", 375000), ("C2", 125000)] := by
  decide +kernel

/-- what the old behaviour was, for all inputs: the two coincide exactly when no skipped row exists -/
theorem merge_orig_eq_of_no_hash (isHashLike : F → Bool) (parts : List (Part F)) (u : Nat)
    (h : ∀ p ∈ parts, ∀ r ∈ p.rows, isHashLike r.1 = false) :
    mergeCountsOrig isHashLike parts u = mergeCounts parts u := by
  unfold mergeCountsOrig mergeCounts
  cases parts with
  | nil => rfl
  | cons p ps =>
    have e : ps.map (fun q => q.rows.dropWhile (fun r => isHashLike r.1)) = ps.map (·.rows) := by
      apply List.map_congr_left
      intro q hq
      have hq' := h q (by simp [hq])
      cases hr : q.rows with
      | nil => rfl
      | cons r rs =>
        have : isHashLike r.1 = false := hq' r (by simp [hr])
        simp [this]
    simp only [List.flatMap_cons, List.flatMap_def, e, List.map_cons, List.flatten_cons]

example : ∀ p ∈ [hashPart1], ∀ r ∈ p.rows, isHashId r.1 = false := by decide +kernel

-- non-vacuity of tpm_sum / tpm_ratio / tpm_usable / tpm_complete on a concrete counts file
example : 0 < totalCounts (tpmInputRows (fun _ => false) [((1 : Nat), (150 : Int)), (2, 50), (3, 0)]) := by
  decide +kernel
example : (countsToTpm NormalizationMethod.simple true (fun _ => false) [((1 : Nat), (150 : Int)), (2, 50), (3, 0)] 4).rows
    = [(1, 750000), (2, 250000), (3, 0)] := by decide +kernel
example : (countsToTpm NormalizationMethod.usable_reads false (fun _ => false) [((1 : Nat), (150 : Int)), (2, 50), (3, 0)] 4).rows
    = [(1, 375000), (2, 125000)] ∧
    (countsToTpm NormalizationMethod.usable_reads false (fun _ => false) [((1 : Nat), (150 : Int)), (2, 50), (3, 0)] 4).unassigned
    = 500000 := by decide +kernel

end IsoVerif.Props.C02Merge
