/-
C11 — translation equivariance of the read-to-isoform assignment model (Model/Assign.lean, property C01):
`assignRead` on the shifted annotation + shifted read = the same assignment type, path, isoform ids, classifications and
event types, with the coordinate payloads shifted.  Bottom-up, one `shift_equivariant_<fn>` per model function, for ALL
inputs and ALL `k : Int`.

Transformations (Model/C11SymAssign.lean): `shiftIsoform`, `shiftIsoInfo`, `shiftGene`, `shiftPolyA` (sentinel −1 kept),
`shiftReadProf` (blocks, region, introns, polyA shifted; profiles are marks: unchanged), `shiftEvent` (the `info` of a
polyA-site event is a POSITION and moves; the `info` of an elongation / terminal-site event is a LENGTH, index regions are
indices: unchanged), `shiftAssignment`, `shiftCj` (the comparator's output is an input of the model).

Hypotheses that appear, and why (each with a `_witness` showing it is needed):
  * `ExonsSafe k ms` — the hypotheses of `shift_equivariant_splitExons` for every annotated exon (well formed; no exon
    start / end + 1 is the loop's border sentinel −1 before or after the shift);
  * `SafePos k x` — a present polyA / polyT position is not moved onto the sentinel −1;
  * `MovedSafeA/T k read x` — nor is the position `shift_polya` / `shift_polyt` recomputes from it;
  * since fix a2ae069 (an absent position is infinitely far, `minInf (distOrInf ..)`) `detect_reference_exons_*` need no
    distance-from-origin and no presence hypothesis (`detect_both_absent`): `detectBeyondPolya_sentinel_arith_witness` / `detectBeforePolyt_sentinel_arith_witness` are regression witnesses
    about the old code (`detectBeyondPolyaBuggy`, `detectBeforePolytBuggy`), `detect_sentinel_arith_regression` /
    `verifyReadEnds_sentinel_arith_regression` show the fixed model on the same inputs;
  * everything bundled once, on the INPUTS, in `NoSentinel k ms blocks pa`; `Genomic k ms blocks pa` (non-negative
    coordinates before and after the shift, well-formed exons, sorted read blocks) implies it (`noSentinel_of_genomic`),
    which gives `shift_equivariant_assignRead_genomic` without any mention of the sentinel.
-/
import IsoVerif.Model.Assign
import IsoVerif.Model.C11SymAssign
import IsoVerif.Lemmas.C11AssignShift7

namespace IsoVerif.Props.C11Assign
open IsoVerif.Gen IsoVerif.Model IsoVerif.Model.C01 IsoVerif.Model.C11 IsoVerif.Lemmas.C11 IsoVerif.Lemmas.C11.AssignShift

/-! ## section: gene construction (`GeneInfo.from_models`) -/

theorem shift_equivariant_sortDedupIv (k : Int) (l : List Iv) : sortDedupIv (shiftL k l) = shiftL k (sortDedupIv l) :=
  sortDedupIv_shift k l

theorem shift_equivariant_regionOf (k : Int) (l : List Iv) : regionOf (shiftL k l) = (regionOf l).map (shiftIv k) :=
  regionOf_shift k l

/-- the per-isoform record: exons, introns, region shifted; both profiles and their ranges unchanged -/
theorem shift_equivariant_mkIso (k : Int) (introns split : List Iv) (m : Isoform) (id : Nat) :
    mkIso (shiftL k introns) (shiftL k split) (shiftIsoform k m) id = (mkIso introns split m id).map (shiftIsoInfo k) :=
  mkIso_shift k introns split m id

theorem shift_equivariant_fromModels (k : Int) (ms : List Isoform) (h : ExonsSafe k ms) :
    Gene.fromModels (ms.map (shiftIsoform k)) = (Gene.fromModels ms).map (shiftGene k) :=
  fromModels_shift k ms h

/-- the sentinel hypothesis is needed (the `split_exons` border sentinel, cf. `split_exons_sentinel_collision_witness`) -/
theorem fromModels_sentinel_witness :
    (Gene.fromModels ([⟨[(1, 6)], .plus⟩, ⟨[(3, 6)], .plus⟩].map (shiftIsoform (-2)))).map (·.splitExons)
      ≠ ((Gene.fromModels [⟨[(1, 6)], .plus⟩, ⟨[(3, 6)], .plus⟩]).map (shiftGene (-2))).map (·.splitExons) := by
  decide +kernel

def exParams : Params :=
  { delta := 6, minor_exon_extension := 50, major_exon_extension := 300, min_abs_exon_overlap := 10, apa_delta := 50,
    minimal_exon_overlap := 5, minimal_intron_absence_overlap := 20, max_fake_terminal_exon_len := 40,
    max_missed_exon_len := 100, resolve_ambiguous := .monoexon_and_fsm }

def exAnnotation : List Isoform :=
  [⟨[(1000, 1200), (1300, 1400), (1500, 1600)], .plus⟩, ⟨[(1000, 1200), (1500, 1600)], .plus⟩,
   ⟨[(1100, 1200), (1300, 1450)], .minus⟩]

example : ExonsSafe 255 exAnnotation := by
  intro m hm e he
  simp only [exAnnotation, List.mem_cons, List.mem_nil_iff, or_false] at hm
  rcases hm with rfl | rfl | rfl <;> simp only [List.mem_cons, List.mem_nil_iff, or_false] at he <;>
    rcases he with rfl | rfl | rfl <;> decide

example : (Gene.fromModels (exAnnotation.map (shiftIsoform 255))).map (·.splitExons)
    = some (shiftL 255 [(1000, 1099), (1100, 1200), (1300, 1400), (1401, 1450), (1500, 1600)]) := by decide +kernel

/-! ## section: read profiles (`construct_profiles`) -/

theorem shift_equivariant_constructProfiles (k : Int) (g : Gene) (p : Params) (blocks : List Iv) (pa : PolyA)
    (hA : SafePos k pa.extA) (hT : SafePos k pa.extT) :
    constructProfiles (shiftGene k g) p (shiftL k blocks) (shiftPolyA k pa)
      = (constructProfiles g p blocks pa).map (shiftReadProf k) :=
  constructProfiles_shift k g p blocks pa hA hT

example : SafePos 255 1601 ∧ SafePos 255 (-1) := ⟨fun _ => by decide, fun h => absurd rfl h⟩

/-- the hypothesis is needed: a polyA position in the middle of the gene masks the downstream introns (−2); shifted onto
    the sentinel it is read as "no polyA" and nothing is masked -/
theorem constructProfiles_sentinel_witness :
    ((Gene.fromModels (exAnnotation.map (shiftIsoform (-1251)))).bind (fun g =>
        (constructProfiles g exParams (shiftL (-1251) [(1020, 1200)]) (shiftPolyA (-1251) ⟨1250, -1, -1, -1⟩)).map
          (fun rp => rp.intron.gene)))
      ≠ ((Gene.fromModels exAnnotation).bind (fun g =>
        (constructProfiles g exParams [(1020, 1200)] ⟨1250, -1, -1, -1⟩).map (fun rp => rp.intron.gene))) := by
  decide +kernel

/-! ## section: candidates and scores -/

theorem shift_equivariant_findContaining (k : Int) (p : Params) (rp : ReadProf) (hint : List IsoInfo) :
    findContaining p (shiftReadProf k rp) (hint.map (shiftIsoInfo k)) = (findContaining p rp hint).map (shiftIsoInfo k) :=
  findContaining_shift k p rp hint

theorem shift_equivariant_findOverlapping (k : Int) (rp : ReadProf) (hint : List IsoInfo) :
    findOverlapping (shiftReadProf k rp) (hint.map (shiftIsoInfo k))
      = (findOverlapping rp hint).map (List.map (shiftIsoInfo k)) :=
  findOverlapping_shift k rp hint

theorem shift_equivariant_findMatchingIntron (k : Int) (rp : ReadProf) (hint : List IsoInfo) :
    findMatchingIntron (shiftReadProf k rp) (hint.map (shiftIsoInfo k))
      = (findMatchingIntron rp hint).map (List.map (shiftIsoInfo k)) :=
  findMatchingIntron_shift k rp hint

theorem shift_equivariant_findMatchingSplit (k : Int) (rp : ReadProf) (hint : List IsoInfo) :
    findMatchingSplit (shiftReadProf k rp) (hint.map (shiftIsoInfo k))
      = (findMatchingSplit rp hint).map (List.map (shiftIsoInfo k)) :=
  findMatchingSplit_shift k rp hint

/-- both nucleotide scores are the same exact rationals -/
theorem shift_equivariant_jaccardScore (k : Int) (p : Params) (rp : ReadProf) (I : IsoInfo) :
    jaccardScore p (shiftReadProf k rp) (shiftIsoInfo k I) = jaccardScore p rp I :=
  jaccardScore_shift k p rp I

theorem shift_equivariant_coverageScore (k : Int) (p : Params) (rp : ReadProf) (I : IsoInfo) :
    coverageScore p (shiftReadProf k rp) (shiftIsoInfo k I) = coverageScore p rp I :=
  coverageScore_shift k p rp I

/-- `resolve_by_nucleotide_score` with either score keeps the same isoforms -/
theorem shift_equivariant_resolveByScore (k : Int) (p : Params) (rp : ReadProf) (factor : Option Rat) (matched : List IsoInfo) :
    resolveByScore (jaccardScore p (shiftReadProf k rp)) factor (matched.map (shiftIsoInfo k))
        = (resolveByScore (jaccardScore p rp) factor matched).map (List.map (shiftIsoInfo k)) ∧
    resolveByScore (coverageScore p (shiftReadProf k rp)) factor (matched.map (shiftIsoInfo k))
        = (resolveByScore (coverageScore p rp) factor matched).map (List.map (shiftIsoInfo k)) :=
  ⟨resolveByScore_jaccard_shift k p rp factor matched, resolveByScore_coverage_shift k p rp factor matched⟩

theorem shift_equivariant_isFsm (k : Int) (rp : ReadProf) (I : IsoInfo) :
    isFsm (shiftReadProf k rp) (shiftIsoInfo k I) = isFsm rp I :=
  isFsm_shift k rp I

theorem shift_equivariant_detectIsmSubtype (k : Int) (rp : ReadProf) (I : IsoInfo) :
    detectIsmSubtype (shiftReadProf k rp) (shiftIsoInfo k I) = detectIsmSubtype rp I :=
  detectIsmSubtype_shift k rp I

theorem shift_equivariant_categorizeSplice (k : Int) (rp : ReadProf) (I : IsoInfo) :
    categorizeSplice (shiftReadProf k rp) (shiftIsoInfo k I) = categorizeSplice rp I :=
  categorizeSplice_shift k rp I

theorem shift_equivariant_spliceMatch (k : Int) (rp : ReadProf) (I : IsoInfo) :
    spliceMatch (shiftReadProf k rp) (shiftIsoInfo k I) = spliceMatch rp I :=
  spliceMatch_shift k rp I

theorem shift_equivariant_unsplicedMatch (k : Int) (I : IsoInfo) : unsplicedMatch (shiftIsoInfo k I) = unsplicedMatch I :=
  unsplicedMatch_shift k I

/-! ## section: read ends -/

/-- `categorize_exon_elongation_subtype`: the events and their `extra` lengths are unchanged -/
theorem shift_equivariant_elongationEvents (k : Int) (g : Gene) (p : Params) (rp : ReadProf) (I : IsoInfo) :
    elongationEvents (shiftGene k g) p (shiftReadProf k rp) (shiftIsoInfo k I) = elongationEvents g p rp I :=
  elongationEvents_shift k g p rp I

/-- `shift_polya` / `shift_polyt` (the copies of Model/Assign.lean) of a present position -/
theorem shift_equivariant_shiftPolya (k : Int) (exons : List Iv) (count : Nat) (pos : Int) (hp : pos ≠ -1) (hp' : pos + k ≠ -1) :
    C01.shiftPolya (shiftL k exons) count (pos + k) = (C01.shiftPolya exons count pos).map (· + k) ∧
    C01.shiftPolyt (shiftL k exons) count (pos + k) = (C01.shiftPolyt exons count pos).map (· + k) :=
  ⟨c01_shiftPolya_shift k exons count pos hp hp', c01_shiftPolyt_shift k exons count pos hp hp'⟩

example : C01.shiftPolya (shiftL 255 [(100, 200), (300, 320)]) 1 (310 + 255) = some (210 + 255) := by decide

theorem shift_equivariant_checkIfClose (k : Int) (p : Params) (stop ext int : Int) (evs : List Event) (ty : MatchEventSubtype)
    (hty : isPosEvent ty = true) (hE : SafePos k ext) (hI : SafePos k int) :
    checkIfClose p (stop + k) (shiftPos k ext) (shiftPos k int) (shiftEvents k evs) ty
      = (checkIfClose p stop ext int evs ty).map (shiftEvents k) :=
  checkIfClose_shift k p stop ext int evs ty hty hE hI

example : isPosEvent .correct_polya_site_right = true ∧ isPosEvent .correct_polya_site_left = true := ⟨rfl, rfl⟩

/-- `dist_to_polya` of `detect_reference_exons_*`: the distance to the nearer PRESENT position (fix a2ae069) -/
theorem shift_equivariant_tailDist (k a ext int : Int) (hE : SafePos k ext) (hI : SafePos k int) :
    minInf (distOrInf (a + k) (shiftPos k ext)) (distOrInf (a + k) (shiftPos k int)) = minInf (distOrInf a ext) (distOrInf a int) :=
  tailDist_shift k a ext int hE hI

theorem shift_equivariant_detectBeyondPolya (k : Int) (p : Params) (iso : List Iv) (ext int : Int) (evs : List Event)
    (hE : SafePos k ext) (hI : SafePos k int) (hEnd : ∀ e, iso.getLast? = some e → e.2 ≠ -1) :
    detectBeyondPolya p (shiftL k iso) (shiftPos k ext) (shiftPos k int) (shiftEvents k evs)
      = (detectBeyondPolya p iso ext int evs).map (outShift k) :=
  detectBeyondPolya_shift k p iso ext int evs hE hI hEnd

theorem shift_equivariant_detectBeforePolyt (k : Int) (p : Params) (iso : List Iv) (ext int : Int) (evs : List Event)
    (hE : SafePos k ext) (hI : SafePos k int) (hEnd : ∀ e, iso.head? = some e → e.1 ≠ -1) :
    detectBeforePolyt p (shiftL k iso) (shiftPos k ext) (shiftPos k int) (shiftEvents k evs)
      = (detectBeforePolyt p iso ext int evs).map (outShift k) :=
  detectBeforePolyt_shift k p iso ext int evs hE hI hEnd

/-- with both positions absent nothing is detected, wherever the gene lies (the loop then compares exon starts with the
    sentinel itself, but after fix a2ae069 the distance is infinite; the old code was not equivariant there either) -/
theorem detect_both_absent (p : Params) (iso : List Iv) (evs : List Event) :
    detectBeyondPolya p iso (-1) (-1) evs = some (evs, -1, -1) ∧ detectBeforePolyt p iso (-1) (-1) evs = some (evs, -1, -1) :=
  ⟨detectBeyondPolya_absent p iso evs, detectBeforePolyt_absent p iso evs⟩

/-- REGRESSION (code before fix a2ae069, kept as `detectBeyondPolyaBuggy`): with the internal polyA position absent (−1)
    the old code still took `min(abs(30 − 80), abs(30 − (−1))) = 31 ≤ max_fake_terminal_exon_len` and declared the terminal
    exon misaligned; 1000 bases further down the same configuration gave `min(50, 1031) = 50` and nothing was reported -/
theorem detectBeyondPolya_sentinel_arith_witness :
    detectBeyondPolyaBuggy exParams (shiftL 1000 [(10, 30), (200, 210)]) (shiftPos 1000 80) (shiftPos 1000 (-1))
        (shiftEvents 1000 [])
      ≠ (detectBeyondPolyaBuggy exParams [(10, 30), (200, 210)] 80 (-1) []).map (outShift 1000) := by
  decide

/-- … and its polyT twin: `min(abs(30 − 100), abs(30 − (−1))) = 31` -/
theorem detectBeforePolyt_sentinel_arith_witness :
    detectBeforePolytBuggy exParams (shiftL 1000 [(1, 3), (30, 200)]) (shiftPos 1000 100) (shiftPos 1000 (-1))
        (shiftEvents 1000 [])
      ≠ (detectBeforePolytBuggy exParams [(1, 3), (30, 200)] 100 (-1) []).map (outShift 1000) := by
  decide

/-- the FIXED functions are equivariant on those same inputs (instances of the two theorems above; no terminal exon is
    declared misaligned, at either place) -/
theorem detect_sentinel_arith_regression :
    detectBeyondPolya exParams (shiftL 1000 [(10, 30), (200, 210)]) (shiftPos 1000 80) (shiftPos 1000 (-1)) (shiftEvents 1000 [])
      = (detectBeyondPolya exParams [(10, 30), (200, 210)] 80 (-1) []).map (outShift 1000) ∧
    detectBeyondPolya exParams [(10, 30), (200, 210)] 80 (-1) [] = some ([], 80, -1) ∧
    detectBeforePolyt exParams (shiftL 1000 [(1, 3), (30, 200)]) (shiftPos 1000 100) (shiftPos 1000 (-1)) (shiftEvents 1000 [])
      = (detectBeforePolyt exParams [(1, 3), (30, 200)] 100 (-1) []).map (outShift 1000) ∧
    detectBeforePolyt exParams [(1, 3), (30, 200)] 100 (-1) [] = some ([], 100, -1) := by
  decide

/-- the hypotheses of `shift_equivariant_detectBeyondPolya` are met by that input -/
example : SafePos 1000 80 ∧ SafePos 1000 (-1) ∧
    (∀ e, [((10 : Int), (30 : Int)), (200, 210)].getLast? = some e → e.2 ≠ -1) := by
  refine ⟨fun _ => by decide, fun h => absurd rfl h, ?_⟩
  intro e he
  simp at he
  subst he
  decide

theorem shift_equivariant_verifyPolya (k : Int) (p : Params) (iso read : List Iv) (pa : PolyA) (evs0 : List Event)
    (hP : pa.extA ≠ -1 ∨ pa.intA ≠ -1) (h : PolyaSafe k iso read pa.extA pa.intA) :
    verifyPolya p (shiftL k iso) (shiftL k read) (shiftPolyA k pa) (shiftEvents k evs0)
      = (verifyPolya p iso read pa evs0).map (shiftEvents k) :=
  verifyPolya_shift k p iso read pa evs0 h.safeExt h.safeInt hP h.isoEnd h.movedExt h.movedInt

theorem shift_equivariant_verifyPolyt (k : Int) (p : Params) (iso read : List Iv) (pa : PolyA) (evs0 : List Event)
    (hP : pa.extT ≠ -1 ∨ pa.intT ≠ -1) (h : PolytSafe k iso read pa.extT pa.intT) :
    verifyPolyt p (shiftL k iso) (shiftL k read) (shiftPolyA k pa) (shiftEvents k evs0)
      = (verifyPolyt p iso read pa evs0).map (shiftEvents k) :=
  verifyPolyt_shift k p iso read pa evs0 h.safeExt h.safeInt hP h.isoStart h.movedExt h.movedInt

/-- a real (external) polyA position shifted ONTO the sentinel is read as "no polyA": the close external site is lost
    and the distant internal one is reported as an alternative site -/
theorem verifyPolya_sentinel_collision_witness :
    verifyPolya exParams (shiftL (-602) [(100, 600)]) (shiftL (-602) [(100, 600)]) (shiftPolyA (-602) ⟨601, -1, 700, -1⟩) []
      ≠ (verifyPolya exParams [(100, 600)] [(100, 600)] ⟨601, -1, 700, -1⟩ []).map (shiftEvents (-602)) := by
  decide

theorem shift_equivariant_checkInternal (k pos : Int) (evs : List Event) (incomplete internal : MatchEventSubtype)
    (hty : isPosEvent internal = true) (h : SafePos k pos) :
    checkInternal (shiftPos k pos) (shiftEvents k evs) incomplete internal
      = (shiftEvents k (checkInternal pos evs incomplete internal).1, (checkInternal pos evs incomplete internal).2) :=
  checkInternal_shift k pos evs incomplete internal hty h

/-- `PolyAVerifier.verify_read_ends`: same events, polyA-site positions shifted -/
theorem shift_equivariant_verifyReadEnds (k : Int) (p : Params) (rp : ReadProf) (I : IsoInfo) (evs : List Event)
    (h : EndsSafe k rp I) :
    verifyReadEnds p (shiftReadProf k rp) (shiftIsoInfo k I) (shiftEvents k evs)
      = (verifyReadEnds p rp I evs).map (shiftEvents k) :=
  verifyReadEnds_shift k p rp I evs h

/-- REGRESSION of fix a2ae069 seen through `verify_read_ends` (the input on which the old code "corrected" the read end to
    the isoform end near the origin and reported an alternative polyA site 1000 bases further down; replayed on the real
    code by the harness, relation `S.verify_read_ends`, k = 1000): the relation now holds, an alternative site at both places -/
theorem verifyReadEnds_sentinel_arith_regression :
    ((Gene.fromModels ([⟨[(10, 30), (200, 210)], .plus⟩].map (shiftIsoform 1000))).bind (fun g =>
        (constructProfiles g exParams (shiftL 1000 [(10, 30)]) (shiftPolyA 1000 ⟨80, -1, -1, -1⟩)).bind (fun rp =>
          g.isos[0]?.bind (fun I => verifyReadEnds exParams rp I []))))
      = ((Gene.fromModels [⟨[(10, 30), (200, 210)], .plus⟩]).bind (fun g =>
        (constructProfiles g exParams [(10, 30)] ⟨80, -1, -1, -1⟩).bind (fun rp =>
          g.isos[0]?.bind (fun I => verifyReadEnds exParams rp I [])))).map (shiftEvents 1000) ∧
    ((Gene.fromModels [⟨[(10, 30), (200, 210)], .plus⟩]).bind (fun g =>
        (constructProfiles g exParams [(10, 30)] ⟨80, -1, -1, -1⟩).bind (fun rp =>
          g.isos[0]?.bind (fun I => verifyReadEnds exParams rp I []))))
      = some [{ ty := .alternative_polya_site_right, info := 80 }] := by
  decide +kernel

/-- `check_read_ends` -/
theorem shift_equivariant_checkReadEnds (k : Int) (g : Gene) (p : Params) (rp : ReadProf) (ms : List (IsoInfo × IsoMatch))
    (ty : ReadAssignmentType) :
    checkReadEnds (shiftGene k g) p (shiftReadProf k rp) (ms.map (shPairM k)) ty
      = (checkReadEnds g p rp ms ty).map (fun r => (r.1.map (shPairM k), r.2)) :=
  checkReadEnds_shift k g p rp ms ty

theorem shift_equivariant_verifyEndsForAssignment (k : Int) (p : Params) (rp : ReadProf) (ms : List (IsoInfo × IsoMatch))
    (h : ∀ Im ∈ ms, EndsSafe k rp Im.1) :
    verifyEndsForAssignment p (shiftReadProf k rp) (ms.map (shPairM k))
      = (verifyEndsForAssignment p rp ms).map (fun r => (r.1.map (shPairM k), r.2)) :=
  verifyEndsForAssignment_shift k p rp ms h

/-! ## section: the two paths -/

theorem shift_equivariant_selectSpliced (k : Int) (p : Params) (rp : ReadProf) (cons : List IsoInfo) :
    selectSpliced p (shiftReadProf k rp) (cons.map (shiftIsoInfo k))
      = (selectSpliced p rp cons).map (List.map (shiftIsoInfo k)) :=
  selectSpliced_shift k p rp cons

theorem shift_equivariant_selectUnspliced (k : Int) (p : Params) (rp : ReadProf) (cons : List IsoInfo) :
    selectUnspliced p (shiftReadProf k rp) (cons.map (shiftIsoInfo k))
      = (selectUnspliced p rp cons).map (List.map (shiftIsoInfo k)) :=
  selectUnspliced_shift k p rp cons

theorem shift_equivariant_consistentIsoforms (k : Int) (g : Gene) (p : Params) (rp : ReadProf) :
    consistentIsoforms (shiftGene k g) p (shiftReadProf k rp)
      = (consistentIsoforms g p rp).map (Option.map (List.map (shiftIsoInfo k))) :=
  consistentIsoforms_shift k g p rp

theorem shift_equivariant_matchConsistent (k : Int) (g : Gene) (p : Params) (rp : ReadProf)
    (h : ∀ I ∈ g.isos, EndsSafe k rp I) :
    matchConsistent (shiftGene k g) p (shiftReadProf k rp) = (matchConsistent g p rp).map (Option.map (shiftAssignment k)) :=
  matchConsistent_shift k g p rp h

theorem shift_equivariant_selectSimilar (k : Int) (g : Gene) (p : Params) (rp : ReadProf) :
    selectSimilar (shiftGene k g) p (shiftReadProf k rp) = (selectSimilar g p rp).map (List.map (shiftIsoInfo k)) :=
  selectSimilar_shift k g p rp

/-- `detect_inconsistensies` with the comparator's events of the shifted input -/
theorem shift_equivariant_detectInconsistencies (k : Int) (g : Gene) (p : Params) (rp : ReadProf)
    (cj : Nat → Option (List Event)) (l : List IsoInfo) (h : ∀ I ∈ l, EndsSafe k rp I) :
    detectInconsistencies (shiftGene k g) p (shiftReadProf k rp) (shiftCj k cj) (l.map (shiftIsoInfo k))
      = (detectInconsistencies g p rp cj l).map (List.map (shPairE k)) :=
  detectInconsistencies_shift k g p rp cj l h

/-- the penalty reads `info` of elongation events only (a length): the cost of a shifted event is the same -/
theorem shift_equivariant_eventCost (k : Int) (p : Params) (e : Event) : eventCost p (shiftEvent k e) = eventCost p e :=
  eventCost_shift k p e

theorem shift_equivariant_penaltyOf (k : Int) (p : Params) (evs : List Event) :
    penaltyOf p (shiftEvents k evs) = penaltyOf p evs :=
  penaltyOf_shift k p evs

theorem shift_equivariant_selectBestAmongInconsistent (k : Int) (p : Params) (rp : ReadProf)
    (rm : List (IsoInfo × List Event)) :
    selectBestAmongInconsistent p (shiftReadProf k rp) (rm.map (shPairE k))
      = (selectBestAmongInconsistent p rp rm).map (fun r => (r.1.map (shPairE k), r.2)) :=
  selectBestAmongInconsistent_shift k p rp rm

theorem shift_equivariant_matchInconsistent (k : Int) (g : Gene) (p : Params) (rp : ReadProf)
    (cj : Nat → Option (List Event)) (h : ∀ I ∈ g.isos, EndsSafe k rp I) :
    matchInconsistent (shiftGene k g) p (shiftReadProf k rp) (shiftCj k cj)
      = (matchInconsistent g p rp cj).map (shiftAssignment k) :=
  matchInconsistent_shift k g p rp cj h

theorem shift_equivariant_dispatch (k : Int) (g : Gene) (rp : ReadProf) :
    dispatch (shiftGene k g) (shiftReadProf k rp) = dispatch g rp :=
  dispatch_shift k g rp

theorem shift_equivariant_noninformativeAssignment (k : Int) (g : Gene) (rp : ReadProf) :
    noninformativeAssignment (shiftGene k g) (shiftReadProf k rp)
      = (noninformativeAssignment g rp).map (shiftAssignment k) :=
  noninformativeAssignment_shift k g rp

/-! ## section: `assign_to_isoform` and the whole model -/

/-- `assign_to_isoform` on a shifted gene model and shifted read profiles: same type, path, isoforms, classifications,
    event types; positions shifted -/
theorem shift_equivariant_assignToIsoform (k : Int) (g : Gene) (p : Params) (rp : ReadProf)
    (cj : Nat → Option (List Event)) (h : ∀ I ∈ g.isos, EndsSafe k rp I) :
    assignToIsoform (shiftGene k g) p (shiftReadProf k rp) (shiftCj k cj)
      = (assignToIsoform g p rp cj).map (fun r => (shiftAssignment k r.1, r.2)) :=
  assignToIsoform_shift k g p rp cj h

/-- END TO END: annotation, alignment blocks and polyA positions shifted by `k` (comparator events of the shifted input)
    give the shifted assignment by the same path — errors included (`none ↦ none`) -/
theorem shift_equivariant_assignRead (k : Int) (ms : List Isoform) (p : Params) (blocks : List Iv) (pa : PolyA)
    (cj : Nat → Option (List Event)) (h : NoSentinel k ms blocks pa) :
    assignRead (ms.map (shiftIsoform k)) p (shiftL k blocks) (shiftPolyA k pa) (shiftCj k cj)
      = (assignRead ms p blocks pa cj).map (fun r => (shiftAssignment k r.1, r.2)) :=
  assignRead_shift k ms p blocks pa cj h

/-- the same on the natural domain, without any mention of the sentinel: annotation and read at non-negative coordinates
    before and after the shift (`Genomic`: well-formed exons, sorted disjoint read blocks, polyA / polyT positions absent
    or non-negative) -/
theorem shift_equivariant_assignRead_genomic (k : Int) (ms : List Isoform) (p : Params) (blocks : List Iv) (pa : PolyA)
    (cj : Nat → Option (List Event)) (h : Genomic k ms blocks pa) :
    assignRead (ms.map (shiftIsoform k)) p (shiftL k blocks) (shiftPolyA k pa) (shiftCj k cj)
      = (assignRead ms p blocks pa cj).map (fun r => (shiftAssignment k r.1, r.2)) :=
  assignRead_shift k ms p blocks pa cj (noSentinel_of_genomic k ms blocks pa h)

/-! ### non-vacuity of the end-to-end theorem: a read of isoform 0 with a polyA tail, shifted by 255 -/

def exBlocks : List Iv := [(1020, 1203), (1297, 1400), (1500, 1600)]
def exPolyA : PolyA := ⟨1601, -1, -1, -1⟩

example : Genomic 255 exAnnotation exBlocks exPolyA := by
  refine ⟨?_, ?_, by simp [exBlocks], ?_⟩
  · intro m hm e he
    simp only [exAnnotation, List.mem_cons, List.mem_nil_iff, or_false] at hm
    rcases hm with rfl | rfl | rfl <;> simp only [List.mem_cons, List.mem_nil_iff, or_false] at he <;>
      rcases he with rfl | rfl | rfl <;> decide
  · intro b hb
    simp only [exBlocks, List.mem_cons, List.mem_nil_iff, or_false] at hb
    rcases hb with rfl | rfl | rfl <;> decide
  · intro x hx
    simp only [exPolyA, List.mem_cons, List.mem_nil_iff, or_false] at hx
    rcases hx with rfl | rfl | rfl | rfl <;> decide

/-- … hence the hypotheses of the read-end theorems (`PolyaSafe`, i.e. `EndsSafe` of a '+' isoform) hold for isoform 0 -/
example : PolyaSafe 255 [(1000, 1200), (1300, 1400), (1500, 1600)] exBlocks exPolyA.extA exPolyA.intA := by
  have hg : Genomic 255 exAnnotation exBlocks exPolyA := by
    refine ⟨?_, ?_, by simp [exBlocks], ?_⟩
    · intro m hm e he
      simp only [exAnnotation, List.mem_cons, List.mem_nil_iff, or_false] at hm
      rcases hm with rfl | rfl | rfl <;> simp only [List.mem_cons, List.mem_nil_iff, or_false] at he <;>
        rcases he with rfl | rfl | rfl <;> decide
    · intro b hb
      simp only [exBlocks, List.mem_cons, List.mem_nil_iff, or_false] at hb
      rcases hb with rfl | rfl | rfl <;> decide
    · intro x hx
      simp only [exPolyA, List.mem_cons, List.mem_nil_iff, or_false] at hx
      rcases hx with rfl | rfl | rfl | rfl <;> decide
  exact (noSentinel_of_genomic _ _ _ _ hg).plus ⟨[(1000, 1200), (1300, 1400), (1500, 1600)], .plus⟩
    (by simp [exAnnotation]) rfl

example : NoSentinel 255 exAnnotation exBlocks exPolyA := by
  refine ⟨?_, fun _ => by decide, fun h => absurd rfl h, ?_, ?_⟩
  · intro m hm e he
    simp only [exAnnotation, List.mem_cons, List.mem_nil_iff, or_false] at hm
    rcases hm with rfl | rfl | rfl <;> simp only [List.mem_cons, List.mem_nil_iff, or_false] at he <;>
      rcases he with rfl | rfl | rfl <;> decide
  · intro m hm hs
    have hend : ∀ e, m.exons.getLast? = some e → e.2 ≠ -1 ∧ e.2 + 255 ≠ -1 := by
      simp only [exAnnotation, List.mem_cons, List.mem_nil_iff, or_false] at hm
      rcases hm with rfl | rfl | rfl <;> intro e he <;> simp at he <;> subst he <;> decide
    refine ⟨fun _ => by decide, fun h => absurd rfl h, hend, ?_, movedSafeA_absent _ _⟩
    apply movedSafeA_of_le
    decide
  · intro m hm hs
    have hstart : ∀ e, m.exons.head? = some e → e.1 ≠ -1 ∧ e.1 + 255 ≠ -1 := by
      simp only [exAnnotation, List.mem_cons, List.mem_nil_iff, or_false] at hm
      rcases hm with rfl | rfl | rfl <;> intro e he <;> simp at he <;> subst he <;> decide
    exact ⟨fun h => absurd rfl h, fun h => absurd rfl h, hstart, movedSafeT_absent _ _, movedSafeT_absent _ _⟩

def view (r : Option (Assignment × Path)) : Option (ReadAssignmentType × Path) := r.map (fun r => (r.1.ty, r.2))
def viewEvents (r : Option (Assignment × Path)) : Option (List (Option Nat × List (MatchEventSubtype × Int))) :=
  r.map (fun r => r.1.isoMatches.map (fun m => (m.iso, m.events.map (fun e => (e.ty, e.info)))))

/-- … and the shifted call really returns the shifted polyA site 1601 + 255 (the `info` of the other events is unchanged) -/
example : view (assignRead (exAnnotation.map (shiftIsoform 255)) exParams (shiftL 255 exBlocks) (shiftPolyA 255 exPolyA)
      (fun _ => none)) = some (.unique, .consistent) ∧
    viewEvents (assignRead (exAnnotation.map (shiftIsoform 255)) exParams (shiftL 255 exBlocks) (shiftPolyA 255 exPolyA)
      (fun _ => none))
    = some [(some 0, [(.fsm, 0), (.terminal_site_match_left, -20), (.terminal_site_match_right_precise, 0),
        (.correct_polya_site_right, 1856)])] := by
  decide +kernel

end IsoVerif.Props.C11Assign
