/-
C03 — what the input annotation check guarantees about the exon records of a reference transcript (audit2-A F3):
a transcript whose GTF lists one exon line twice (concatenated annotations), or whose exon records overlap, passes
`validate_exons` (sorted in tuple order, `0 < start <= end`), so the reading rule "a reference transcript = a transcript record
that passes validate_exons" let it into the clause "exons sorted, non-overlapping" — and the reference path copies it verbatim.
The repaired `check_gtf_duplicates` (Model/GtfCheck.lean) rejects such an annotation; on a checked annotation the gate and
"sorted, pairwise disjoint, 1 <= start <= end" are the SAME predicate.

Property theorems only.
-/
import IsoVerif.Model.GtfCheck
import IsoVerif.Model.GtfRef
import IsoVerif.Props.C03
import IsoVerif.Props.C03Ref

namespace IsoVerif.Props.C03Check
open IsoVerif.Gen IsoVerif.Model IsoVerif.Model.C03 IsoVerif.Lemmas IsoVerif.Lemmas.C03 IsoVerif.Props.C03
  IsoVerif.Props.C03Build IsoVerif.Props.C03Ref

/-- two exon lines are compatible: of different transcripts, or different records that share no position -/
def Compat (a b : ExonRec) : Prop := sameTx a b = true → a.iv ≠ b.iv ∧ ovl a.iv b.iv = false

theorem sameTx_comm (a b : ExonRec) : sameTx a b = sameTx b a := by
  unfold sameTx
  rw [Bool.beq_comm (a := a.seq), Bool.beq_comm (a := a.tid)]

theorem ovl_comm (a b : Iv) : ovl a b = ovl b a := by
  unfold ovl
  rw [Bool.and_comm]

theorem mem_seenOf (kept : List ExonRec) (r : ExonRec) (x : Iv) :
    x ∈ seenOf kept r ↔ ∃ k ∈ kept, sameTx r k = true ∧ k.iv = x := by
  unfold seenOf
  simp only [List.mem_map, List.mem_filter]
  constructor
  · rintro ⟨k, ⟨hk, hs⟩, hx⟩; exact ⟨k, hk, hs, hx⟩
  · rintro ⟨k, hk, hs, hx⟩; exact ⟨k, ⟨hk, hs⟩, hx⟩

/-- a line is reported as duplicated exactly when the same record was already kept -/
theorem dup_iff_mem (kept : List ExonRec) (r : ExonRec) : r.iv ∈ seenOf kept r ↔ r ∈ kept := by
  rw [mem_seenOf]
  constructor
  · rintro ⟨k, hk, hs, hx⟩
    have : k = r := by
      unfold sameTx at hs
      simp only [Bool.and_eq_true, beq_iff_eq] at hs
      cases k; cases r; simp_all
    exact this ▸ hk
  · intro h
    exact ⟨r, h, by simp [sameTx], rfl⟩

theorem verdict_ok_iff (kept : List ExonRec) (r : ExonRec) :
    exonVerdict kept r = .ok ↔ ∀ k ∈ kept, Compat k r := by
  unfold exonVerdict Compat
  by_cases h1 : r.iv ∈ seenOf kept r
  · simp only [h1, if_true, reduceCtorEq, false_iff]
    obtain ⟨k, hk, hs, hx⟩ := (mem_seenOf kept r r.iv).mp h1
    intro hall
    exact (hall k hk (by rw [sameTx_comm]; exact hs)).1 hx
  · simp only [h1, if_false]
    by_cases h2 : (seenOf kept r).any (fun e => ovl e r.iv) = true
    · simp only [h2, if_true, reduceCtorEq, false_iff]
      obtain ⟨e, he, ho⟩ := List.any_eq_true.mp h2
      obtain ⟨k, hk, hs, hx⟩ := (mem_seenOf kept r e).mp he
      intro hall
      have := (hall k hk (by rw [sameTx_comm]; exact hs)).2
      rw [hx, ho] at this
      cases this
    · simp only [h2, Bool.false_eq_true, if_false, true_iff]
      intro k hk hs
      have hs' : sameTx r k = true := by rw [sameTx_comm]; exact hs
      refine ⟨fun he => h1 ((mem_seenOf kept r r.iv).mpr ⟨k, hk, hs', he⟩), ?_⟩
      cases ho : ovl k.iv r.iv with
      | false => rfl
      | true =>
        exact absurd (List.any_eq_true.mpr ⟨k.iv, (mem_seenOf kept r k.iv).mpr ⟨k, hk, hs', rfl⟩, ho⟩) h2

/-- the loop, generalised over its state -/
theorem exonCheckFrom_accepts_iff (l : List ExonRec) : ∀ (kept : List ExonRec) (ok : Bool),
    (exonCheckFrom kept ok l).1 = true ↔ ok = true ∧ (∀ k ∈ kept, ∀ r ∈ l, Compat k r) ∧ l.Pairwise Compat := by
  induction l with
  | nil => intro kept ok; simp [exonCheckFrom]
  | cons r rs ih =>
    intro kept ok
    have hok := verdict_ok_iff kept r
    unfold exonCheckFrom
    cases hv : exonVerdict kept r with
    | ok =>
      have hc : ∀ k ∈ kept, Compat k r := hok.mp hv
      simp only [ih, List.pairwise_cons, List.mem_append, List.mem_cons, List.not_mem_nil, or_false]
      constructor
      · rintro ⟨h1, h2, h3⟩
        refine ⟨h1, ?_, fun x hx => h2 r (Or.inr rfl) x hx, h3⟩
        intro k hk x hx
        rcases hx with rfl | hx
        · exact hc k hk
        · exact h2 k (Or.inl hk) x hx
      · rintro ⟨h1, h2, h3, h4⟩
        refine ⟨h1, ?_, h4⟩
        intro k hk x hx
        rcases hk with hk | rfl
        · exact h2 k hk x (Or.inr hx)
        · exact h3 x hx
    | dup =>
      have hne : ¬ ∀ k ∈ kept, Compat k r := fun h => by rw [hok.mpr h] at hv; cases hv
      simp only [ih, Bool.false_eq_true, false_and, false_iff]
      rintro ⟨_, h2, _⟩
      exact hne (fun k hk => h2 k hk r (List.mem_cons_self ..))
    | overlap =>
      have hne : ¬ ∀ k ∈ kept, Compat k r := fun h => by rw [hok.mpr h] at hv; cases hv
      simp only [ih, Bool.false_eq_true, false_and, false_iff]
      rintro ⟨_, h2, _⟩
      exact hne (fun k hk => h2 k hk r (List.mem_cons_self ..))

/-- **exon_check_accepts_iff** (∀ lists of exon lines): the exon part of the repaired input check leaves `gtf_correct` untouched
    exactly when any two exon lines of one transcript (same sequence, same transcript id) are different records that share no
    position — no line repeated, no two exons overlapping. -/
theorem exon_check_accepts_iff (l : List ExonRec) : (exonCheck l).1 = true ↔ l.Pairwise Compat := by
  unfold exonCheck
  rw [exonCheckFrom_accepts_iff]
  simp

-- non-vacuity: a three-exon transcript next to another transcript with the same coordinates is accepted
example : (exonCheck [⟨1, 1, (2001, 2300)⟩, ⟨1, 1, (2601, 3000)⟩, ⟨1, 2, (2601, 3000)⟩, ⟨1, 1, (3501, 3800)⟩]).1 = true := by decide

/-- the loop keeps its lines and adds a sublist of the input; every input record has a kept copy; no kept copy twice -/
theorem exonCheckFrom_kept (l : List ExonRec) : ∀ (kept : List ExonRec) (ok : Bool),
    ∃ d, (exonCheckFrom kept ok l).2 = kept ++ d ∧ d.Sublist l ∧ (∀ r ∈ l, r ∈ kept ++ d) ∧ (kept.Nodup → (kept ++ d).Nodup) := by
  induction l with
  | nil => intro kept ok; exact ⟨[], by simp [exonCheckFrom], List.Sublist.refl _, by simp, by simp⟩
  | cons r rs ih =>
    intro kept ok
    unfold exonCheckFrom
    have hdup : exonVerdict kept r = .dup ↔ r ∈ kept := by
      unfold exonVerdict
      rw [← dup_iff_mem kept r]
      by_cases h : r.iv ∈ seenOf kept r
      · simp [h]
      · simp only [h, if_false, iff_false]
        split <;> simp
    have hkeep : ∀ ok', exonVerdict kept r ≠ .dup →
        ∃ d, (exonCheckFrom (kept ++ [r]) ok' rs).2 = kept ++ d ∧ d.Sublist (r :: rs) ∧ (∀ x ∈ r :: rs, x ∈ kept ++ d) ∧
          (kept.Nodup → (kept ++ d).Nodup) := by
      intro ok' hnd
      have hnotin : r ∉ kept := fun h => hnd (hdup.mpr h)
      obtain ⟨d, h1, h2, h3, h4⟩ := ih (kept ++ [r]) ok'
      refine ⟨r :: d, by rw [h1]; simp, h2.cons_cons r, ?_, ?_⟩
      · intro x hx
        rcases List.mem_cons.mp hx with rfl | hx
        · simp
        · have := h3 x hx
          simp only [List.mem_append, List.mem_cons, List.not_mem_nil, or_false] at this ⊢
          rcases this with (h | h) | h
          · exact Or.inl h
          · exact Or.inr (Or.inl h)
          · exact Or.inr (Or.inr h)
      · intro hk
        have : (kept ++ [r]).Nodup := by
          rw [List.nodup_append]
          exact ⟨hk, by simp, fun a ha b hb => by simp only [List.mem_singleton] at hb; subst hb; exact fun e => hnotin (e ▸ ha)⟩
        have := h4 this
        rw [List.append_assoc] at this
        exact this
    cases hv : exonVerdict kept r with
    | dup =>
      have hin : r ∈ kept := hdup.mp hv
      obtain ⟨d, h1, h2, h3, h4⟩ := ih kept false
      refine ⟨d, h1, h2.cons r, ?_, h4⟩
      intro x hx
      rcases List.mem_cons.mp hx with rfl | hx
      · exact List.mem_append_left _ hin
      · exact h3 x hx
    | ok => exact hkeep ok (by rw [hv]; simp)
    | overlap => exact hkeep false (by rw [hv]; simp)

/-- **exon_check_corrected_spec** (∀ lists of exon lines): the exon lines of the corrected annotation are a sub-sequence of the
    input lines (order kept, nothing invented), hold every input record (nothing lost but repetitions) and hold no record twice:
    exactly the first copy of every record. -/
theorem exon_check_corrected_spec (l : List ExonRec) :
    (exonCheck l).2.Sublist l ∧ (∀ r ∈ l, r ∈ (exonCheck l).2) ∧ (exonCheck l).2.Nodup := by
  obtain ⟨d, h1, h2, h3, h4⟩ := exonCheckFrom_kept l [] true
  unfold exonCheck
  rw [h1]
  simp only [List.nil_append] at h3 h4 ⊢
  exact ⟨h2, h3, h4 List.nodup_nil⟩

example : (exonCheck [⟨1, 1, (2001, 2300)⟩, ⟨1, 1, (2601, 3000)⟩, ⟨1, 1, (2601, 3000)⟩, ⟨1, 1, (3501, 3800)⟩]) =
    (false, [⟨1, 1, (2001, 2300)⟩, ⟨1, 1, (2601, 3000)⟩, ⟨1, 1, (3501, 3800)⟩]) := by decide

/-- **exon_check_corrected_accepted**: if the only defect of an annotation is repeated exon lines (any two DIFFERENT exon
    records of one transcript share no position), the corrected annotation the check writes passes the check. -/
theorem exon_check_corrected_accepted (l : List ExonRec)
    (h : ∀ a ∈ l, ∀ b ∈ l, a ≠ b → sameTx a b = true → ovl a.iv b.iv = false) :
    (exonCheck (exonCheck l).2).1 = true := by
  obtain ⟨hsub, _, hnd⟩ := exon_check_corrected_spec l
  rw [exon_check_accepts_iff]
  have hp : (exonCheck l).2.Pairwise (fun a b => a ≠ b) := hnd
  refine hp.imp_of_mem ?_
  intro a b ha hb hne hs
  refine ⟨fun he => hne ?_, h a (hsub.subset ha) b (hsub.subset hb) hne hs⟩
  unfold sameTx at hs
  simp only [Bool.and_eq_true, beq_iff_eq] at hs
  cases a; cases b; simp_all

-- non-vacuity: the duplicated-line annotation of the witness meets the hypothesis
example : ∀ a ∈ [(⟨1, 1, (2001, 2300)⟩ : ExonRec), ⟨1, 1, (2601, 3000)⟩, ⟨1, 1, (2601, 3000)⟩, ⟨1, 1, (3501, 3800)⟩],
    ∀ b ∈ [(⟨1, 1, (2001, 2300)⟩ : ExonRec), ⟨1, 1, (2601, 3000)⟩, ⟨1, 1, (2601, 3000)⟩, ⟨1, 1, (3501, 3800)⟩],
      a ≠ b → sameTx a b = true → ovl a.iv b.iv = false := by decide

/-- the exon lines of one transcript of a checked annotation pairwise share no position -/
theorem checked_lines_disjoint (l : List ExonRec) (hchk : (exonCheck l).1 = true) (seq tid : Id) :
    (exonLinesOf l seq tid).Pairwise (fun a b => ovl a b = false) := by
  have hp := (exon_check_accepts_iff l).mp hchk
  unfold exonLinesOf
  rw [List.pairwise_map]
  refine (hp.filter _).imp_of_mem ?_
  intro a b ha hb hc
  have ha' := (List.mem_filter.mp ha).2
  have hb' := (List.mem_filter.mp hb).2
  simp only [Bool.and_eq_true, beq_iff_eq] at ha' hb'
  exact (hc (by simp [sameTx, ha'.1, ha'.2, hb'.1, hb'.2])).2

/-- **checked_exons_sd** (∀ annotations the repaired check accepts, ∀ transcripts): whatever order gffutils returns the exon
    records of a transcript in (`ex` is any permutation of its exon lines), if the list passes `validate_exons` — which is what
    `GFFPrinter.dump` tests — then it is sorted, PAIRWISE DISJOINT, well-formed and 1-based. -/
theorem checked_exons_sd (l : List ExonRec) (hchk : (exonCheck l).1 = true) (seq tid : Id) (ex : List Iv)
    (hperm : ex.Perm (exonLinesOf l seq tid)) (hv : validateExons ex = true) :
    SD ex ∧ WFl ex ∧ ∀ x ∈ ex, 1 ≤ x.1 := by
  refine gate_plus_disjoint_is_SD ex hv ?_
  have hp := checked_lines_disjoint l hchk seq tid
  have hp' : ex.Pairwise (fun a b => ovl a b = false) :=
    (hperm.pairwise_iff (fun {a b} h => by rw [ovl_comm]; exact h)).mpr hp
  refine hp'.imp ?_
  intro a b hab hmm
  unfold ovl at hab
  simp only [Bool.and_eq_false_iff, decide_eq_false_iff_not] at hab
  omega

/-- the reading rule of DESIGN §6 C03 (b) before the repair: a reference transcript is a record with ≥ 1 exon whose exon list
    passes `validate_exons` -/
def RefGate (ex : List Iv) : Prop := ex ≠ [] ∧ validateExons ex = true

instance (ex : List Iv) : Decidable (RefGate ex) := by unfold RefGate; exact inferInstance

/-- what the statement's clause demands of a transcript of the output file -/
def RefWellFormed (ex : List Iv) : Prop := ex ≠ [] ∧ SD ex ∧ ∀ x ∈ ex, 1 ≤ x.1 ∧ x.1 ≤ x.2

/-- **checked_reference_gate_iff_wellformed**: on an annotation the repaired input check accepts the two predicates coincide
    for every transcript — the domain of "every reference transcript" is exactly the set of transcripts the output clause can
    hold for. -/
theorem checked_reference_gate_iff_wellformed (l : List ExonRec) (hchk : (exonCheck l).1 = true) (seq tid : Id) (ex : List Iv)
    (hperm : ex.Perm (exonLinesOf l seq tid)) : RefGate ex ↔ RefWellFormed ex := by
  unfold RefGate RefWellFormed
  constructor
  · rintro ⟨hne, hv⟩
    obtain ⟨h1, h2, h3⟩ := checked_exons_sd l hchk seq tid ex hperm hv
    exact ⟨hne, h1, fun x hx => ⟨h3 x hx, h2 x hx⟩⟩
  · rintro ⟨hne, hsd, hw⟩
    exact ⟨hne, sd_passes_gate ex hsd (fun x hx => (hw x hx).2) (fun x hx => by have := (hw x hx).1; omega)⟩

-- non-vacuity: a checked annotation, a transcript of it, both predicates hold
example : (exonCheck [⟨1, 1, (2001, 2300)⟩, ⟨1, 1, (3501, 3800)⟩, ⟨1, 1, (2601, 3000)⟩]).1 = true ∧
    [((2001, 2300) : Iv), (2601, 3000), (3501, 3800)].Perm (exonLinesOf [⟨1, 1, (2001, 2300)⟩, ⟨1, 1, (3501, 3800)⟩, ⟨1, 1, (2601, 3000)⟩] 1 1) ∧
    RefGate [(2001, 2300), (2601, 3000), (3501, 3800)] := by
  refine ⟨by decide, ?_, by decide⟩
  show [((2001, 2300) : Iv), (2601, 3000), (3501, 3800)].Perm [(2001, 2300), (3501, 3800), (2601, 3000)]
  exact List.Perm.cons _ (List.Perm.swap _ _ _)

/-- the exon records of every transcript of a chromosome's annotation are the exon lines of the checked file, in the order
    gffutils returned them -/
def AnnFromLines (l : List ExonRec) (a : ChrAnn) : Prop := ∀ x ∈ a.txs, x.exons.Perm (exonLinesOf l x.seqid x.tid)

/-- **checked_reference_models_sd** (∀ checked annotations, ∀ chromosomes): every reference model of the extended storage
    (`create_extended_storage`) that passes the gate of `dump` has sorted, pairwise disjoint, well-formed 1-based exons —
    the `SD` half of the field `exons_ok` of `GoodHistory` (Props/C03Whole) for the reference models, which rested on "a
    well-formed annotation" before. -/
theorem checked_reference_models_sd (l : List ExonRec) (hchk : (exonCheck l).1 = true) (a : ChrAnn) (ha : AnnFromLines l a)
    (m : TModel) (hm : m ∈ a.ctx.isoforms.map (refModel a.ctx)) (hv : validM m = true) :
    SD m.exons ∧ WFl m.exons ∧ ∀ x ∈ m.exons, 1 ≤ x.1 := by
  obtain ⟨r, hr, rfl⟩ := List.mem_map.mp hm
  obtain ⟨x, hx, _, rfl⟩ := (isoforms_are_transcripts_with_exons a r).mp hr
  exact checked_exons_sd l hchk x.seqid x.tid x.exons (ha x hx) hv

/-! ### the pinned check: witnesses -/

/-- exon lines of the pipeline witnesses (`gen/refsets.py` scenarios `dup_exon_line`, `overlap_exons`) -/
def dupLines : List ExonRec := [⟨1, 1, (2001, 2300)⟩, ⟨1, 1, (2601, 3000)⟩, ⟨1, 1, (2601, 3000)⟩, ⟨1, 1, (3501, 3800)⟩]
def ovlLines : List ExonRec := [⟨1, 1, (2001, 2300)⟩, ⟨1, 1, (2250, 3000)⟩, ⟨1, 1, (3501, 3800)⟩]

def runOf (ex : List Iv) : RunInput :=
  { fastaKeys := [1],
    ann := [{ chr := 1, regions := [(7, (2001, 3800))], txs := [{ tid := 1, gid := 7, seqid := 1, strand := 0, exons := ex }] }] }

/-- **unchecked_duplicate_exon_witness**: the pinned check accepts the annotation whose transcript lists exon 2601-3000 twice;
    the exon list passes `validate_exons` (so §6 (b) counted it as a reference transcript), is not `SD`, and
    `extended_annotation.gtf` carries the exon record twice. The repaired check rejects it, the corrected annotation is the clean
    transcript and passes. -/
theorem unchecked_duplicate_exon_witness :
    (exonCheckOrig dupLines).1 = true ∧ RefGate (exonLinesOf dupLines 1 1) ∧ ¬ RefWellFormed (exonLinesOf dupLines 1 1) ∧
    extendedLines (runOf (exonLinesOf dupLines 1 1)) =
      some [Line.gene 1 2001 3800 0 7 1, Line.tx 1 2001 3800 0 7 1, Line.feat 1 0 2001 2300 0 7 1 1,
            Line.feat 1 0 2601 3000 0 7 1 2, Line.feat 1 0 2601 3000 0 7 1 3, Line.feat 1 0 3501 3800 0 7 1 4] ∧
    (exonCheck dupLines).1 = false ∧
    (exonCheck dupLines).2 = [⟨1, 1, (2001, 2300)⟩, ⟨1, 1, (2601, 3000)⟩, ⟨1, 1, (3501, 3800)⟩] ∧
    (exonCheck (exonCheck dupLines).2).1 = true := by
  refine ⟨by decide, by decide, ?_, by decide, by decide, by decide, by decide⟩
  rintro ⟨_, hsd, _⟩
  revert hsd
  decide

/-- **unchecked_overlapping_exons_witness**: exons (2001,2300), (2250,3000) of one transcript: accepted by the pinned check,
    passes the gate, printed verbatim with overlapping exon records; rejected by the repaired check, which cannot correct it
    (the corrected annotation still holds both exons and is rejected again). -/
theorem unchecked_overlapping_exons_witness :
    (exonCheckOrig ovlLines).1 = true ∧ RefGate (exonLinesOf ovlLines 1 1) ∧ ¬ RefWellFormed (exonLinesOf ovlLines 1 1) ∧
    extendedLines (runOf (exonLinesOf ovlLines 1 1)) =
      some [Line.gene 1 2001 3800 0 7 1, Line.tx 1 2001 3800 0 7 1, Line.feat 1 0 2001 2300 0 7 1 1,
            Line.feat 1 0 2250 3000 0 7 1 2, Line.feat 1 0 3501 3800 0 7 1 3] ∧
    (exonCheck ovlLines).1 = false ∧ (exonCheck ovlLines).2 = ovlLines ∧ (exonCheck (exonCheck ovlLines).2).1 = false := by
  refine ⟨by decide, by decide, ?_, by decide, by decide, by decide, by decide⟩
  rintro ⟨_, hsd, _⟩
  revert hsd
  decide

end IsoVerif.Props.C03Check
