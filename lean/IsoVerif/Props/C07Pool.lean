/-
C07 with a process pool (`--threads N`, N > 1) — resuming an interrupted run yields the outputs of an uninterrupted run,
for **every interleaving** of the per-chromosome tasks of both parallel stages, in the killed run and in the resumed run.

Model: `IsoVerif.Model.Resume` (Model/ResumePool.lean): `runPool` = the run of Model/Resume.lean whose two
per-chromosome loops are parallel stages (one task per chromosome, the global event list an arbitrary interleaving
of the tasks' event lists given by a schedule, stage barriers as in the code); a crash is a prefix of the interleaved
global event list — the events of each task in it form a prefix of the task's own list, tasks not yet started
contribute nothing.  Every tuple of per-task prefixes is reached by some schedule (`prefix_tuple_reachable`), so the
quantification over schedules and kill points covers every downward-closed set of per-task prefixes; the worker limit
of a real executor (at most N tasks in progress) only removes schedules.

Full-strength statement (`resume_correct_pool`): for every well-formed configuration, every pair of schedules of the
killed run, every kill point `k ≥ 2` of its global event list, every pair of schedules of the resumed run and every
directory order of either run's clean-up, the verdict is EQUAL.  The history clauses lift the same way
(`resume_correct_pool_dirty_folder`, `resume_correct_pool_read_assignments`).

Proof: the per-chromosome lock invariant `J` (Props/C07.lean `crash_state_invariant`) is lifted to products of per-task
states (`Lemmas/ResumePool.lean`: `J_product`, `allJ_weave`, `pool_good`); helper lemmas in Lemmas/ResumePool*.lean.
-/
import IsoVerif.Lemmas.ResumePoolRun
import IsoVerif.Lemmas.ResumePoolSeq
import IsoVerif.Props.C07

namespace IsoVerif.Props.C07Pool
open IsoVerif.Model.Resume IsoVerif.Lemmas.Resume IsoVerif.Props.C07

/-- shape of every pool run of the repaired code, for every pair of schedules, from a state in which the locks vouch
    only for complete files: it completes, its events are the two `.params` events followed by an interleaved event
    list along which the invariant `J` holds at **every prefix**, and all final files end up complete and correct -/
theorem run_shape_pool {cfg : Cfg} (wf : WF cfg) (ord : List Path) (hord : ord.Nodup) (rs : Bool) (s1 s2 : List Chr) {fs : FS}
    (h : J0 cfg fs) (hp : rs = true → fs.good .params = true) (hcl : rs = false → lockList cfg fs = [])
    (hsv : cfg.fromSaves = true → SavesOK cfg fs) :
    ∃ rest : List Ev,
      (runPool fixed cfg ord rs s1 s2 fs).evs = paramsEvs fixed ++ rest ∧
      (runPool fixed cfg ord rs s1 s2 fs).ok = true ∧
      AllP (J cfg) (afterParams fs) rest ∧
      FinOK cfg (runPool fixed cfg ord rs s1 s2 fs).fs := by
  have hj := J_afterParams h
  have hlk : (afterParams fs).has .lock = fs.has .lock := by
    simp only [FS.has]; rw [afterParams_other fs (by simp) (by simp)]
  have hrun : runPool fixed cfg ord rs s1 s2 fs = runPhases (phases fixed cfg ord rs (rs && fs.has .lock) s1 s2) fs := by
    cases rs with
    | true => simpa using runPool_resume_eq cfg ord s1 s2 fs
    | false => simpa using runPool_fresh_eq cfg ord s1 s2 (hcl rfl)
  obtain ⟨hg, hfin⟩ := rest_run_pool_ref wf ord hord rs (rs && fs.has .lock) s1 s2 hj
    (by intro e; simp only [Bool.and_eq_true] at e; exact e.1)
    (by intro e; simp only [Bool.and_eq_true] at e; rw [hlk]; exact e.2)
    (by intro e _ e'; rw [hlk]; subst e'; simpa using e)
    (fun e => savesOK_frame (hsv e) (afterParams_other fs (by simp) (by simp)) (fun _ => afterParams_other fs (by simp) (by simp))
      (fun _ => afterParams_other fs (by simp) (by simp)))
    (by intro _ e c hc; rw [FS.has, afterParams_other fs (by simp) (by simp)]; exact lockList_nil_processed (hcl e) c hc)
  have hck : ChecksOK (paramsStage fixed rs fs) fs := by
    unfold paramsStage
    cases rs with
    | false => exact checks_evs _ _
    | true => exact ⟨hp rfl, checks_evs _ _⟩
  have hev : eventsOf (paramsStage fixed rs fs) = paramsEvs fixed := by
    unfold paramsStage; cases rs <;> simp [eventsOf]
  obtain ⟨hok0, hevs0⟩ := runActs_of_checks hck
  have hfs0 : (runActs (paramsStage fixed rs fs) fs).fs = afterParams fs := by
    rw [runActs_fs, hevs0, hev]; rfl
  refine ⟨(runPhases (.seq (refStage fixed cfg rs) :: restPhases cfg ord rs ((rs && fs.has .lock) || cfg.fromSaves) s1 s2)
    (afterParams fs)).evs, ?_, ?_, hg.2, ?_⟩
  · simp only [hrun, phases_eq, runPhases, runPhase, hok0, if_true, hevs0, hev, hfs0]; rfl
  · simp only [hrun, phases_eq, runPhases, runPhase, hok0, if_true, hfs0]; exact hg.1
  · simp only [hrun, phases_eq, runPhases, runPhase, hok0, if_true, hfs0]; exact hfin

/-- **crash consistency under a process pool**: whichever way the tasks of the two parallel stages interleave, whenever
    the (first or a resumed) run is killed after its parameters were saved, every lock file that exists vouches only for
    complete, correct files, and `.params` is intact.  (`crash_state_invariant` lifted to products of per-task states.) -/
theorem crash_state_invariant_pool {cfg : Cfg} (wf : WF cfg) (ord : List Path) (hord : ord.Nodup) (rs : Bool)
    (s1 s2 : List Chr) {fs : FS}
    (h : J0 cfg fs) (hp : rs = true → fs.good .params = true) (hcl : rs = false → lockList cfg fs = [])
    (hsv : cfg.fromSaves = true → SavesOK cfg fs) (k : Nat) (hk : 4 ≤ k ∨ rs = true) :
    J cfg (applyAll fs ((runPool fixed cfg ord rs s1 s2 fs).evs.take k)) := by
  obtain ⟨rest, hevs, _, hall, _⟩ := run_shape_pool wf ord hord rs s1 s2 h hp hcl hsv
  rw [hevs]
  by_cases h4 : 4 ≤ k
  · obtain ⟨k', rfl⟩ : ∃ k', k = (paramsEvs fixed).length + k' := ⟨k - 4, by simp [paramsEvs, fixed]; omega⟩
    rw [take_length_add, applyAll_append]
    exact AllP_take hall k'
  · have hrs : rs = true := by rcases hk with hk | hk; exact absurd hk h4; exact hk
    have hlt : k ≤ (paramsEvs fixed).length := by simp [paramsEvs, fixed]; omega
    rw [List.take_append_of_le_length hlt]
    exact AllP_take (params_prefix_J ⟨hp hrs, h⟩) k

/-- **history clause, process pool**: the run is started on *any* file system `fs0` (with `--read_assignments`: on
    complete save files plus arbitrary leftovers) with any schedules `s1 s2`, killed after any `k` events of the
    interleaved event list once its own parameters are saved, and resumed with any schedules `s1' s2'`: the resumed run
    completes and every final file equals that of the uninterrupted run on `fs0` -/
theorem resume_correct_pool_from {cfg : Cfg} (wf : WF cfg) (ord ord' : List Path) (hord : ord.Nodup) (hord' : ord'.Nodup)
    (s1 s2 s1' s2' : List Chr)
    (fs0 : FS) (hs : cfg.fromSaves = true → SavesConsistent cfg fs0) (hi : IndexSound cfg fs0) (k : Nat)
    (hk : (lockList cfg fs0).length + 4 ≤ k) : verdictPoolFrom fixed cfg ord ord' s1 s2 s1' s2' fs0 k = .equal := by
  obtain ⟨hevs, hok0, hfs0⟩ := runPool_split wf ord s1 s2 fs0
  have hJ0 := J0_cleaned fs0 hs hi
  have hcl : lockList cfg (cleaned cfg fs0) = [] := lockList_cleaned cfg fs0
  have hsv1 : cfg.fromSaves = true → SavesOK cfg (cleaned cfg fs0) := fun e =>
    savesOK_frame (hs e).1 (cleaned_other cfg fs0 rfl) (fun _ => cleaned_other cfg fs0 rfl) (fun _ => cleaned_other cfg fs0 rfl)
  obtain ⟨k', rfl⟩ : ∃ k', k = (lockList cfg fs0).length + k' := ⟨k - (lockList cfg fs0).length, by omega⟩
  have hk' : 4 ≤ k' := by omega
  -- the crash state is a crash state of the run on the cleaned folder
  have hcrash : crashFSPool fixed cfg ord s1 s2 fs0 ((lockList cfg fs0).length + k') =
      applyAll (cleaned cfg fs0) ((runPool fixed cfg ord false s1 s2 (cleaned cfg fs0)).evs.take k') := by
    simp only [crashFSPool, hevs]
    have := take_length_add ((lockList cfg fs0).map Ev.remove) (runPool fixed cfg ord false s1 s2 (cleaned cfg fs0)).evs k'
    rw [List.length_map] at this
    rw [this, applyAll_append]; rfl
  have hJ : J cfg (crashFSPool fixed cfg ord s1 s2 fs0 ((lockList cfg fs0).length + k')) := by
    rw [hcrash]
    exact crash_state_invariant_pool wf ord hord false s1 s2 hJ0 (by simp) (fun _ => hcl) hsv1 k' (Or.inl hk')
  have hsvc : cfg.fromSaves = true → SavesOK cfg (crashFSPool fixed cfg ord s1 s2 fs0 ((lockList cfg fs0).length + k')) := by
    intro e
    rw [hcrash]
    have hunt : ∀ p, notSaves p = false →
        applyAll (cleaned cfg fs0) ((runPool fixed cfg ord false s1 s2 (cleaned cfg fs0)).evs.take k') p = cleaned cfg fs0 p := by
      intro p hp
      apply applyAll_untouched
      intro ev hev hpe
      have := saves_untouched_pool wf e ord false (false && (cleaned cfg fs0).has .lock) s1 s2 (cleaned cfg fs0) ev
        (List.mem_of_mem_take hev)
      rw [hpe, hp] at this; exact absurd this (by simp)
    exact savesOK_frame (hsv1 e) (hunt _ rfl) (fun _ => hunt _ rfl) (fun _ => hunt _ rfl)
  obtain ⟨_, _, hok, _, hfin⟩ := run_shape_pool wf ord' hord' true s1' s2' hJ.2 (fun _ => hJ.1) (by simp) hsvc
  obtain ⟨_, _, _, _, hfin1⟩ := run_shape_pool wf ord hord false s1 s2 hJ0 (by simp) (fun _ => hcl) hsv1
  simp only [verdictPoolFrom, hok, Bool.not_true, Bool.false_eq_true, if_false]
  have : sameFinals cfg (runPool fixed cfg ord' true s1' s2' (crashFSPool fixed cfg ord s1 s2 fs0 ((lockList cfg fs0).length + k'))).fs
      (runPool fixed cfg ord false s1 s2 fs0).fs = true := by
    simp only [sameFinals, List.all_eq_true, beq_iff_eq]
    intro p hp
    have h1 := hfin p hp
    have h2 := hfin1 p hp
    simp only [FS.good, beq_iff_eq] at h1 h2
    rw [h1, hfs0, h2]
  simp [this]

/-- process pool, the output folder already holds the remains of an earlier (killed or finished) run: any leftovers -/
theorem resume_correct_pool_dirty_folder {cfg : Cfg} (wf : WF cfg) (hm : cfg.fromSaves = false) (ord ord' : List Path)
    (hord : ord.Nodup) (hord' : ord'.Nodup) (s1 s2 s1' s2' : List Chr) (fs0 : FS) (hi : IndexSound cfg fs0) (k : Nat)
    (hk : (lockList cfg fs0).length + 4 ≤ k) :
    verdictPoolFrom fixed cfg ord ord' s1 s2 s1' s2' fs0 k = .equal :=
  resume_correct_pool_from wf ord ord' hord hord' s1 s2 s1' s2' fs0 (fun e => by rw [hm] at e; exact absurd e (by simp)) hi k hk

/-- process pool, `--read_assignments`: run from kept save files (complete; any stale `_processed` locks, statistics
    files or other leftovers next to them), kill, resume -/
theorem resume_correct_pool_read_assignments {cfg : Cfg} (wf : WF cfg) (hm : cfg.fromSaves = true) (ord ord' : List Path)
    (hord : ord.Nodup) (hord' : ord'.Nodup) (s1 s2 s1' s2' : List Chr) (fs0 : FS) (hs : SavesConsistent cfg fs0)
    (hi : IndexSound cfg fs0) (k : Nat)
    (hk : (lockList cfg fs0).length + 4 ≤ k) : verdictPoolFrom fixed cfg ord ord' s1 s2 s1' s2' fs0 k = .equal :=
  resume_correct_pool_from wf ord ord' hord hord' s1 s2 s1' s2' fs0 (fun _ => hs) hi k hk

/-- **full-strength property under a process pool** (fresh output folder, BAM input): for every interleaving `s1 s2`
    of the killed run, every kill point `k ≥ 2` of its global event list and every interleaving `s1' s2'` of the resumed
    run, the resumed run completes and every final file equals that of the uninterrupted run -/
theorem resume_correct_pool {cfg : Cfg} (wf : WF cfg) (hm : cfg.fromSaves = false) (ord ord' : List Path) (hord : ord.Nodup)
    (hord' : ord'.Nodup) (s1 s2 s1' s2' : List Chr) (k : Nat) (hk : 4 ≤ k) :
    verdictPool fixed cfg ord ord' s1 s2 s1' s2' k = .equal :=
  resume_correct_pool_dirty_folder wf hm ord ord' hord hord' s1 s2 s1' s2' FS.empty (indexSound_empty cfg) k
    (by rw [lockList_empty]; simpa using hk)

/-- safety half: a resumed pool run never exits successfully with different, truncated or missing results -/
theorem resume_never_silently_wrong_pool {cfg : Cfg} (wf : WF cfg) (hm : cfg.fromSaves = false) (ord ord' : List Path)
    (hord : ord.Nodup) (hord' : ord'.Nodup) (s1 s2 s1' s2' : List Chr) (k : Nat) (hk : 4 ≤ k) :
    verdictPool fixed cfg ord ord' s1 s2 s1' s2' k ≠ .diff := by
  rw [resume_correct_pool wf hm ord ord' hord hord' s1 s2 s1' s2' k hk]; decide

/-- liveness half: the resumed pool run completes -/
theorem resume_completes_pool {cfg : Cfg} (wf : WF cfg) (hm : cfg.fromSaves = false) (ord ord' : List Path)
    (hord : ord.Nodup) (hord' : ord'.Nodup) (s1 s2 s1' s2' : List Chr) (k : Nat) (hk : 4 ≤ k) :
    verdictPool fixed cfg ord ord' s1 s2 s1' s2' k ≠ .fail := by
  rw [resume_correct_pool wf hm ord ord' hord hord' s1 s2 s1' s2' k hk]; decide

/-- the uninterrupted pool run completes with complete final files, whatever the schedules -/
theorem clean_run_pool_completes {cfg : Cfg} (wf : WF cfg) (hm : cfg.fromSaves = false) (ord : List Path) (hord : ord.Nodup)
    (s1 s2 : List Chr) :
    (runPool fixed cfg ord false s1 s2 FS.empty).ok = true ∧ FinOK cfg (runPool fixed cfg ord false s1 s2 FS.empty).fs := by
  obtain ⟨_, _, hok, _, hfin⟩ := run_shape_pool wf ord hord false s1 s2 (J0_empty cfg) (by simp) (fun _ => lockList_empty cfg)
    (fun e => by rw [hm] at e; exact absurd e (by simp))
  exact ⟨hok, hfin⟩

/-- the final files do not depend on the schedule: those of any pool run equal those of the `--threads 1` run -/
theorem pool_finals_schedule_independent {cfg : Cfg} (wf : WF cfg) (hm : cfg.fromSaves = false) (ord ord' : List Path)
    (hord : ord.Nodup) (hord' : ord'.Nodup) (s1 s2 : List Chr) :
    sameFinals cfg (runPool fixed cfg ord false s1 s2 FS.empty).fs (run fixed cfg ord' false FS.empty).fs = true := by
  obtain ⟨_, h1⟩ := clean_run_pool_completes wf hm ord hord s1 s2
  obtain ⟨_, h2⟩ := clean_run_completes wf hm ord' hord'
  simp only [sameFinals, List.all_eq_true, beq_iff_eq]
  intro p hp
  have a := h1 p hp
  have b := h2 p hp
  simp only [FS.good, beq_iff_eq] at a b
  rw [a, b]

/-! ### any number of interruptions, any schedules -/

/-- the file system after a chain of killed pool runs: the first run starts in an empty directory, every later one is a
    `--resume`; each has its own directory order, schedules and kill point -/
def afterCrashesPool (cfg : Cfg) : List (List Path × List Chr × List Chr × Nat) → Bool → FS → FS
  | [], _, fs => fs
  | (ord, s1, s2, k) :: rest, rs, fs =>
      afterCrashesPool cfg rest true (applyAll fs ((runPool fixed cfg ord rs s1 s2 fs).evs.take k))

theorem afterCrashesPool_J {cfg : Cfg} (wf : WF cfg) (hm : cfg.fromSaves = false)
    (chain : List (List Path × List Chr × List Chr × Nat))
    (hc : ∀ x ∈ chain, x.1.Nodup) (rs : Bool) (h0 : rs = false → ∀ x ∈ chain.head?, 4 ≤ x.2.2.2) {fs : FS} (h : J0 cfg fs)
    (hp : rs = true → fs.good .params = true) (hcl : rs = false → lockList cfg fs = []) (hne : chain ≠ []) :
    J cfg (afterCrashesPool cfg chain rs fs) := by
  induction chain generalizing rs fs with
  | nil => exact absurd rfl hne
  | cons x chain ih =>
    obtain ⟨ord, s1, s2, k⟩ := x
    have hx := hc (ord, s1, s2, k) (by simp)
    have hk : 4 ≤ k ∨ rs = true := by
      cases rs with
      | true => exact Or.inr rfl
      | false => exact Or.inl (h0 rfl (ord, s1, s2, k) (by simp))
    have hJ := crash_state_invariant_pool wf ord hx rs s1 s2 h hp hcl (fun e => by rw [hm] at e; exact absurd e (by simp)) k hk
    simp only [afterCrashesPool]
    cases chain with
    | nil => exact hJ
    | cons y chain =>
      exact ih (fun z hz => hc z (by simp [hz])) true (fun e => absurd e (by simp)) hJ.2 (fun _ => hJ.1) (by simp) (by simp)

/-- a pool run interrupted any number of times (the first run after its parameters were saved, every resumed run at any
    point, each run with its own interleaving) and finally resumed without interruption completes with all final files
    complete and correct -/
theorem resume_correct_pool_after_repeated_crashes {cfg : Cfg} (wf : WF cfg) (hm : cfg.fromSaves = false)
    (chain : List (List Path × List Chr × List Chr × Nat))
    (hc : ∀ x ∈ chain, x.1.Nodup) (h0 : ∀ x ∈ chain.head?, 4 ≤ x.2.2.2) (hne : chain ≠ []) (ord : List Path)
    (hord : ord.Nodup) (s1 s2 : List Chr) :
    (runPool fixed cfg ord true s1 s2 (afterCrashesPool cfg chain false FS.empty)).ok = true ∧
      FinOK cfg (runPool fixed cfg ord true s1 s2 (afterCrashesPool cfg chain false FS.empty)).fs := by
  have hJ := afterCrashesPool_J wf hm chain hc false (fun _ => h0) (J0_empty cfg) (by simp) (fun _ => lockList_empty cfg) hne
  obtain ⟨_, _, hok, _, hfin⟩ := run_shape_pool wf ord hord true s1 s2 hJ.2 (fun _ => hJ.1) (by simp)
    (fun e => by rw [hm] at e; exact absurd e (by simp))
  exact ⟨hok, hfin⟩

/-- two chromosomes, annotation, no read groups, unaligned reads present -/
def cfg2 : Cfg := { chrs := [0, 1], mchrs := [1, 0], bchrs := [0, 1], genedb := true, rg := .none, keepTmp := false,
                    unmapped := true, fromSaves := false }

def ord2 : List Path := [.info, .multimap 0, .multimap 1, .lock, .save 0, .save 1, .processed 0, .processed 1, .bamstat 0,
                         .bamstat 1, .readStat 0, .readStat 1, .collected 0, .collected 1, .groups 0, .groups 1, .trStat 0,
                         .trStat 1, .rgLock]

theorem cfg2_wf : WF cfg2 := by
  refine ⟨by decide, by decide, by decide, ?_, by decide⟩
  intro c
  simp only [cfg2, List.mem_cons, List.not_mem_nil, or_false]
  constructor <;> rintro (rfl | rfl) <;> simp

/-! ### a task may be started at any moment of its parallel stage

The model lets every task look at the file system at the start of its stage; a real worker looks when it is handed the
task.  For every variant of the model (repaired or not) that is the same: -/

/-- read collection: after the tasks of *other* chromosomes have performed any events `es`, the task of chromosome `c`
    performs the same events with the same outcome as when it is started together with the stage -/
theorem collect_task_start_independent (v : Variant) (cfg : Cfg) (rs sk : Bool) (c : Chr) (fs : FS) (es : List Ev)
    (hes : ∀ e ∈ es, ∃ c', c' ≠ c ∧ Tcol c' e.path = true) :
    (runActs (collectChr v cfg rs sk c (applyAll fs es)) (applyAll fs es)).evs = (runActs (collectChr v cfg rs sk c fs) fs).evs ∧
    (runActs (collectChr v cfg rs sk c (applyAll fs es)) (applyAll fs es)).ok = (runActs (collectChr v cfg rs sk c fs) fs).ok :=
  collect_start_indep v cfg rs sk c fs es hes

/-- model construction: the same -/
theorem construct_task_start_independent (v : Variant) (cfg : Cfg) (rs : Bool) (c : Chr) (fs : FS) (es : List Ev)
    (hes : ∀ e ∈ es, ∃ c', c' ≠ c ∧ Tcon c' e.path = true) :
    (runActs (constructChr v cfg rs c (applyAll fs es)) (applyAll fs es)).evs = (runActs (constructChr v cfg rs c fs) fs).evs ∧
    (runActs (constructChr v cfg rs c (applyAll fs es)) (applyAll fs es)).ok = (runActs (constructChr v cfg rs c fs) fs).ok :=
  construct_start_indep v cfg rs c fs es hes

-- the hypothesis is met by a concrete non-trivial input: the task of chromosome 1 has opened its save file and
-- written its groups file before the task of chromosome 0 starts
example : (∀ e ∈ [Ev.create (.save 1), .create (.groups 1), .commit (.groups 1) .good], ∃ c', c' ≠ 0 ∧ Tcol c' e.path = true) ∧
    (runActs (collectChr fixed cfg2 false false 0
        (applyAll FS.empty [Ev.create (.save 1), .create (.groups 1), .commit (.groups 1) .good]))
        (applyAll FS.empty [Ev.create (.save 1), .create (.groups 1), .commit (.groups 1) .good])).evs.length = 8 := by
  refine ⟨?_, by decide +kernel⟩
  intro e he
  simp only [List.mem_cons, List.not_mem_nil, or_false] at he
  rcases he with rfl | rfl | rfl <;> exact ⟨1, by decide, rfl⟩

/-! ### `--threads 1` is one of the schedules -/

/-- the run of Model/Resume.lean (`--threads 1`: the tasks one after the other) **is** the pool run with the empty
    schedules — same events, same final file system — for every variant of the model, whenever the run completes.
    (A run in which a task raises differs by design: a lazy `map` stops there, a pool lets the other tasks finish.) -/
theorem threads1_is_empty_schedule (v : Variant) (cfg : Cfg) (nd : cfg.chrs.Nodup) (ord : List Path) (rs : Bool) (fs : FS)
    (hok : (run v cfg ord rs fs).ok = true) : runPool v cfg ord rs [] [] fs = run v cfg ord rs fs :=
  runPool_nil_eq_run v cfg nd ord rs fs hok

/-- hence the crash states of the `--threads 1` run are crash states of a pool run: `resume_correct` and
    `crash_state_invariant` of Props/C07.lean are the instances `s1 = s2 = []` of the theorems above -/
theorem threads1_crash_states (v : Variant) (cfg : Cfg) (nd : cfg.chrs.Nodup) (ord : List Path) (fs0 : FS) (k : Nat)
    (hok : (run v cfg ord false fs0).ok = true) : crashFSPool v cfg ord [] [] fs0 k = crashFSFrom v cfg ord fs0 k := by
  simp only [crashFSPool, crashFSFrom, cleanEventsFrom, runPool_nil_eq_run v cfg nd ord false fs0 hok]

/-! ### every tuple of per-task prefixes is a crash state -/

/-- the schedule that lets task `c₁` perform `n c₁` events, then `c₂` perform `n c₂` events, … -/
def blockSchedule (cs : List Chr) (n : Chr → Nat) : List Chr := cs.flatMap (fun c => List.replicate (n c) c)

/-- **every downward-closed set of per-task prefixes is reachable**: for every choice of prefix lengths `n` the block
    schedule reaches, after `Σ min (n c) |task c|` events, the state in which exactly the first `n c` events of every task
    have been performed (distinct tasks; `rem` = the tasks' event lists).  Hence quantifying over all schedules and kill
    points is quantifying over all tuples of per-task prefixes. -/
theorem prefix_tuple_reachable (cs : List Chr) (nd : cs.Nodup) (n : Chr → Nat) (rest : List Chr) (rem : Chr → List Ev) :
    ∃ tail, weave (blockSchedule cs n ++ rest) rem = cs.flatMap (fun c => (rem c).take (n c)) ++ tail := by
  induction cs generalizing rem with
  | nil => exact ⟨_, rfl⟩
  | cons c cs ih =>
    have nd' := List.nodup_cons.mp nd
    simp only [blockSchedule, List.flatMap_cons, List.append_assoc]
    rw [weave_replicate]
    obtain ⟨tail, ht⟩ := ih nd'.2 (fun x => if x = c then (rem c).drop (n c) else rem x)
    simp only [blockSchedule] at ht
    refine ⟨tail, ?_⟩
    rw [ht]
    congr 2
    apply flatMap_congr_on
    intro x hx
    have : x ≠ c := fun e => nd'.1 (e ▸ hx)
    simp [this]

/-! ### the old behaviours under a process pool: witnesses at kill points that no `--threads 1` run has -/

/-- the collection tasks of the two chromosomes strictly alternating -/
def alt2 : List Chr := [0, 1, 0, 1, 0, 1, 0, 1, 0, 1, 0, 1, 0, 1, 0, 1]

/-- `_collected` written before the save file is terminated (as pinned), two workers alternating: killed when *both*
    tasks have just written their lock (a state no sequential run passes through: both dumps unterminated), the resumed
    run raises -/
theorem resume_completes_pool_lock_before_flush_witness :
    ((runPool lockBeforeFlushBuggy cfg2 ord2 false alt2 [] FS.empty).evs.take 19).filter
        (fun e => e == .create (.collected 0) || e == .create (.collected 1) || e == .commit (.save 0) .good
                  || e == .commit (.save 1) .good)
      = [.create (.collected 0), .create (.collected 1)] ∧
    verdictPool lockBeforeFlushBuggy cfg2 ord2 ord2 alt2 [] [] [] 19 = .fail := by decide +kernel

/-! ### non-vacuity -/

/-- schedules for `cfg3` (three chromosomes): a round-robin over the three tasks, and blocks in reverse order -/
def rr3 : List Chr := (List.range 40).flatMap (fun _ => [2, 0, 1])
def rev3 : List Chr := (List.replicate 60 2) ++ (List.replicate 60 1) ++ (List.replicate 60 0)

-- the hypotheses of `resume_correct_pool` are met by a concrete non-trivial input: three chromosomes, round-robin
-- collection, model construction in reverse blocks, kill point 120 (inside the second parallel stage)
example : WF cfg3 ∧ ord3.Nodup ∧ 4 ≤ 120 ∧ verdictPool fixed cfg3 ord3 ord3 rr3 rev3 rev3 rr3 120 = .equal :=
  ⟨cfg3_wf, by decide, by omega, resume_correct_pool cfg3_wf rfl ord3 ord3 (by decide) (by decide) rr3 rev3 rev3 rr3 120 (by omega)⟩

-- the interleaved event list differs from the `--threads 1` one but has the same length
example : (runPool fixed cfg3 ord3 false rr3 rev3 FS.empty).evs.length = 304 ∧
    (runPool fixed cfg3 ord3 false rr3 rev3 FS.empty).evs ≠ (run fixed cfg3 ord3 false FS.empty).evs := by decide +kernel

-- `threads1_is_empty_schedule` on a concrete input: the 304 events of the `--threads 1` run of `cfg3`
example : (run fixed cfg3 ord3 false FS.empty).ok = true ∧
    runPool fixed cfg3 ord3 false [] [] FS.empty = run fixed cfg3 ord3 false FS.empty :=
  ⟨by decide +kernel, threads1_is_empty_schedule fixed cfg3 cfg3_wf.nd ord3 false FS.empty (by decide +kernel)⟩

-- its hypothesis is needed: when a task raises (old behaviour, the dump of chromosome 0 left unterminated under its
-- lock), the lazy `map` of `--threads 1` stops there (4 events), the pool lets the task of chromosome 1 finish (12 events)
example : (run lockBeforeFlushBuggy cfg2 ord2 true (crashFS lockBeforeFlushBuggy cfg2 ord2 12)).evs.length = 4 ∧
    (runPool lockBeforeFlushBuggy cfg2 ord2 true [] [] (crashFS lockBeforeFlushBuggy cfg2 ord2 12)).evs.length = 12 ∧
    (runPool lockBeforeFlushBuggy cfg2 ord2 true [] [] (crashFS lockBeforeFlushBuggy cfg2 ord2 12)).ok = false := by
  decide +kernel

end IsoVerif.Props.C07Pool
