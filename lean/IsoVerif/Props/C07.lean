/-
C07 — resuming an interrupted run yields the outputs of an uninterrupted run.

Property theorems over the executable model `IsoVerif.Model.Resume` (file-system protocol of one run; see the header
of Model/Resume.lean and docs/C07.md).  `fixed` is the current /repo, `pinned` the tree before the three `fix:` commits.
Helper lemmas live in IsoVerif/Lemmas/Resume*.lean.

Full-strength statement (`resume_correct`): for every well-formed configuration (any number of chromosomes, any
processing / merge / BAM-header order, with or without annotation, read groups, --keep_tmp, unaligned reads), every
directory order seen by the clean-up globs of either run, and every truncation point `k ≥ 2` of the first run's event
list (`.params` is saved by the first two events), the resumed run completes and every final file equals that of the
uninterrupted run.
-/
import IsoVerif.Lemmas.ResumeRun

namespace IsoVerif.Props.C07
open IsoVerif.Model.Resume IsoVerif.Lemmas.Resume

/-- the lock/data part of the invariant (what holds of an empty directory as well) -/
def J0 (cfg : Cfg) (fs : FS) : Prop := ∀ l, fs.has l = true → ∀ d ∈ guarded cfg l, fs.good d = true

theorem J0_empty (cfg : Cfg) : J0 cfg FS.empty := by intro l hl; simp at hl

theorem J_J0 {cfg : Cfg} {fs : FS} (h : J cfg fs) : J0 cfg fs := h.2

/-- the state after `.params` has been written -/
def afterParams (fs : FS) : FS := apply (apply fs (.create .params)) (.commit .params .good)

theorem J_afterParams {cfg : Cfg} {fs : FS} (h : J0 cfg fs) : J cfg (afterParams fs) := by
  refine ⟨by simp [afterParams, apply, FS.good, FS.set, Ev.path, Ev.val], ?_⟩
  intro l hl d hd
  have hdne : d ≠ .params := by
    intro e; subst e; have := mem_guarded_locksOf hd; simp [locksOf] at this
  have hlne : l ≠ .params := by
    intro e; subst e; simp [guarded] at hd
  simp only [afterParams, apply, Ev.path, Ev.val, FS.has, FS.good, set_other _ _ hdne, set_other _ _ hlne] at hl ⊢
  exact h l hl d hd

theorem afterParams_other (fs : FS) {p : Path} (h : p ≠ .params) : afterParams fs p = fs p := by
  simp [afterParams, apply, Ev.path, Ev.val, set_other _ _ h]

/-- shape of every run of the repaired code from a state in which the locks vouch only for complete files
    (and, when resuming, `.params` is intact): it completes, its events are the two `.params` events followed by
    events along which the invariant `J` holds at every prefix, and all final files end up complete and correct -/
theorem run_shape {cfg : Cfg} (wf : WF cfg) (ord : List Path) (hord : ord.Nodup) (rs : Bool) {fs : FS}
    (h : J0 cfg fs) (hp : rs = true → fs.good .params = true) :
    ∃ rest : List Ev,
      (run fixed cfg ord rs fs).evs = .create .params :: .commit .params .good :: rest ∧
      (run fixed cfg ord rs fs).ok = true ∧
      AllP (J cfg) (afterParams fs) rest ∧
      FinOK cfg (run fixed cfg ord rs fs).fs := by
  have hj := J_afterParams h
  have hlk : (afterParams fs).has .lock = fs.has .lock := by
    simp only [FS.has]; rw [afterParams_other fs (by simp)]
  obtain ⟨hg, hfin⟩ := rest_run wf ord hord rs (rs && fs.has .lock) hj
    (by intro e; simp only [Bool.and_eq_true] at e; exact e.1)
    (by intro e; simp only [Bool.and_eq_true] at e; rw [hlk]; exact e.2)
    (by intro e e'; rw [hlk]; subst e'; simpa using e)
  have hck : ChecksOK (paramsStage rs fs) fs := by
    unfold paramsStage
    cases rs with
    | false => exact checks_evs _ _
    | true => exact ⟨hp rfl, checks_evs _ _⟩
  have hev : eventsOf (paramsStage rs fs) = [.create .params, .commit .params .good] := by
    unfold paramsStage; cases rs <;> rfl
  obtain ⟨hok0, hevs0⟩ := runActs_of_checks hck
  have hfs0 : (runActs (paramsStage rs fs) fs).fs = afterParams fs := by
    rw [runActs_fs, hevs0, hev]; rfl
  refine ⟨(runStages (restStages cfg ord rs (rs && fs.has .lock)) (afterParams fs)).evs, ?_, ?_, hg.2, ?_⟩
  · simp only [run, stages_eq, runStages, hok0, if_true, hevs0, hev, hfs0]; rfl
  · simp only [run, stages_eq, runStages, hok0, if_true, hfs0]; exact hg.1
  · simp only [run, stages_eq, runStages, hok0, if_true, hfs0]; exact hfin

/-- **crash consistency**: whenever the (first or a resumed) run is killed after its parameters were saved, every lock
    file that exists vouches only for complete, correct files, and `.params` is intact -/
theorem crash_state_invariant {cfg : Cfg} (wf : WF cfg) (ord : List Path) (hord : ord.Nodup) (rs : Bool) {fs : FS}
    (h : J0 cfg fs) (hp : rs = true → fs.good .params = true) (k : Nat) (hk : 2 ≤ k) :
    J cfg (applyAll fs ((run fixed cfg ord rs fs).evs.take k)) := by
  obtain ⟨rest, hevs, _, hall, _⟩ := run_shape wf ord hord rs h hp
  obtain ⟨k', rfl⟩ : ∃ k', k = k' + 2 := ⟨k - 2, by omega⟩
  rw [hevs]
  simp only [List.take_succ_cons, applyAll]
  exact AllP_take hall k'

/-- **full-strength property**: kill the first run after any `k ≥ 2` events, resume: the resumed run completes and
    every final file equals that of the uninterrupted run -/
theorem resume_correct {cfg : Cfg} (wf : WF cfg) (ord ord' : List Path) (hord : ord.Nodup) (hord' : ord'.Nodup)
    (k : Nat) (hk : 2 ≤ k) : verdict fixed cfg ord ord' k = .equal := by
  have hJ : J cfg (crashFS fixed cfg ord k) :=
    crash_state_invariant wf ord hord false (J0_empty cfg) (by simp) k hk
  obtain ⟨_, _, hok, _, hfin⟩ := run_shape wf ord' hord' true hJ.2 (fun _ => hJ.1)
  obtain ⟨_, _, _, _, hfin0⟩ := run_shape wf ord hord false (J0_empty cfg) (by simp)
  simp only [verdict, hok, Bool.not_true, Bool.false_eq_true, if_false]
  have : sameFinals cfg (run fixed cfg ord' true (crashFS fixed cfg ord k)).fs (run fixed cfg ord false FS.empty).fs = true := by
    simp only [sameFinals, List.all_eq_true, beq_iff_eq]
    intro p hp
    have h1 := hfin p hp
    have h2 := hfin0 p hp
    simp only [FS.good, beq_iff_eq] at h1 h2
    rw [h1, h2]
  simp [this]

/-- safety half: a resumed run never exits successfully with different, truncated or missing results -/
theorem resume_never_silently_wrong {cfg : Cfg} (wf : WF cfg) (ord ord' : List Path) (hord : ord.Nodup)
    (hord' : ord'.Nodup) (k : Nat) (hk : 2 ≤ k) : verdict fixed cfg ord ord' k ≠ .diff := by
  rw [resume_correct wf ord ord' hord hord' k hk]; decide

/-- liveness half: the resumed run completes -/
theorem resume_completes {cfg : Cfg} (wf : WF cfg) (ord ord' : List Path) (hord : ord.Nodup)
    (hord' : ord'.Nodup) (k : Nat) (hk : 2 ≤ k) : verdict fixed cfg ord ord' k ≠ .fail := by
  rw [resume_correct wf ord ord' hord hord' k hk]; decide

/-- the uninterrupted run itself completes with complete final files -/
theorem clean_run_completes {cfg : Cfg} (wf : WF cfg) (ord : List Path) (hord : ord.Nodup) :
    (run fixed cfg ord false FS.empty).ok = true ∧ FinOK cfg (run fixed cfg ord false FS.empty).fs := by
  obtain ⟨_, _, hok, _, hfin⟩ := run_shape wf ord hord false (J0_empty cfg) (by simp)
  exact ⟨hok, hfin⟩

/-! ### any number of interruptions -/

/-- the file system after a chain of killed runs: the first run starts in an empty directory, every later one is a
    `--resume`; each is killed after `k` events (its own directory order `ord`) -/
def afterCrashes (cfg : Cfg) : List (List Path × Nat) → Bool → FS → FS
  | [], _, fs => fs
  | (ord, k) :: rest, rs, fs => afterCrashes cfg rest true (applyAll fs ((run fixed cfg ord rs fs).evs.take k))

theorem afterCrashes_J {cfg : Cfg} (wf : WF cfg) (chain : List (List Path × Nat))
    (hc : ∀ x ∈ chain, x.1.Nodup ∧ 2 ≤ x.2) (rs : Bool) {fs : FS} (h : J0 cfg fs)
    (hp : rs = true → fs.good .params = true) (hne : chain ≠ []) : J cfg (afterCrashes cfg chain rs fs) := by
  induction chain generalizing rs fs with
  | nil => exact absurd rfl hne
  | cons x chain ih =>
    obtain ⟨ord, k⟩ := x
    have hx := hc (ord, k) (by simp)
    have hJ := crash_state_invariant wf ord hx.1 rs h hp k hx.2
    simp only [afterCrashes]
    cases chain with
    | nil => exact hJ
    | cons y chain => exact ih (fun z hz => hc z (by simp [hz])) true hJ.2 (fun _ => hJ.1) (by simp)

/-- a run interrupted any number of times (each time after its parameters were saved / re-saved) and finally resumed
    without interruption completes with all final files complete and correct -/
theorem resume_correct_after_repeated_crashes {cfg : Cfg} (wf : WF cfg) (chain : List (List Path × Nat))
    (hc : ∀ x ∈ chain, x.1.Nodup ∧ 2 ≤ x.2) (hne : chain ≠ []) (ord : List Path) (hord : ord.Nodup) :
    (run fixed cfg ord true (afterCrashes cfg chain false FS.empty)).ok = true ∧
      FinOK cfg (run fixed cfg ord true (afterCrashes cfg chain false FS.empty)).fs := by
  have hJ := afterCrashes_J wf chain hc false (J0_empty cfg) (by simp) hne
  obtain ⟨_, _, hok, _, hfin⟩ := run_shape wf ord hord true hJ.2 (fun _ => hJ.1)
  exact ⟨hok, hfin⟩


/-! ### the pinned behaviours (before the `fix:` commits) violate the property: witnesses

`cfg1` / `ord1` are the toy run (one chromosome, annotation, no read groups; the clean-up order is the directory order
observed on the pinned tree).  Each variant switches exactly one repair off. -/

/-- one chromosome, annotation, no read groups, unaligned reads present -/
def cfg1 : Cfg := { chrs := [0], mchrs := [0], bchrs := [0], genedb := true, rg := .none, keepTmp := false, unmapped := true }

def ord1 : List Path := [.info, .multimap 0, .lock, .save 0, .processed 0, .bamstat 0, .readStat 0, .collected 0, .groups 0,
                         .trStat 0, .rgLock]

/-- `_collected` / `_processed` written before the guarded files are flushed (as pinned) -/
def lockBeforeFlushBuggy : Variant := { fixed with flushBeforeLock := false }
/-- `_processed` locks kept while the per-chromosome files are merged and deleted (as pinned) -/
def mergeKeepsLocksBuggy : Variant := { fixed with dropProcessed := false }
/-- clean-up in directory order, locks not first (as pinned) -/
def cleanupAnyOrderBuggy : Variant := { fixed with locksFirst := false }
/-- unaligned reads not recounted when collection is skipped (as pinned) -/
def unalignedForgottenBuggy : Variant := { fixed with countUnaligned := false }

/-- safety fails: killed right after the `_processed` lock appeared (event 49 = `create processed 0`, the printers'
    buffers not yet flushed), the resumed run exits successfully with truncated results -/
theorem resume_never_silently_wrong_lock_before_flush_witness :
    (cleanEvents lockBeforeFlushBuggy cfg1 ord1)[48]? = some (.create (.processed 0)) ∧
    verdict lockBeforeFlushBuggy cfg1 ord1 ord1 49 = .diff := by decide +kernel

/-- liveness fails: killed right after the `_collected` lock appeared (the dump not yet terminated), the resumed run raises -/
theorem resume_completes_lock_before_flush_witness :
    (cleanEvents lockBeforeFlushBuggy cfg1 ord1)[9]? = some (.create (.collected 0)) ∧
    verdict lockBeforeFlushBuggy cfg1 ord1 ord1 10 = .fail := by decide +kernel

/-- liveness fails (class merge-in-progress): killed after the first removal of a per-chromosome file while the
    `_processed` lock still exists, the resumed run raises (FileNotFoundError in merge_files) -/
theorem resume_completes_merge_in_progress_witness :
    (cleanEvents mergeKeepsLocksBuggy cfg1 ord1)[54]? = some (.remove (.part .gtf 0)) ∧
    verdict mergeKeepsLocksBuggy cfg1 ord1 ord1 55 = .fail := by decide +kernel

/-- liveness fails (class cleanup-before-lock-removal): killed after the clean-up removed the info file while the stage
    lock still exists, the resumed run raises -/
theorem resume_completes_cleanup_before_lock_removal_witness :
    (cleanEvents cleanupAnyOrderBuggy cfg1 ord1)[83]? = some (.remove .info) ∧
    verdict cleanupAnyOrderBuggy cfg1 ord1 ord1 84 = .fail := by decide +kernel

/-- safety fails: killed once read collection has finished (event 16 = stage lock written), the resumed run skips the
    collection, reports `__not_aligned 0` and exits successfully -/
theorem resume_never_silently_wrong_unaligned_witness :
    (cleanEvents unalignedForgottenBuggy cfg1 ord1)[15]? = some (.create .lock) ∧
    verdict unalignedForgottenBuggy cfg1 ord1 ord1 16 = .diff := by decide +kernel

/-- the pinned tree (all four repairs off): silently wrong at 16, failing at 10 and 55 -/
theorem pinned_witness :
    verdict pinned cfg1 ord1 ord1 16 = .diff ∧ verdict pinned cfg1 ord1 ord1 10 = .fail ∧
    verdict pinned cfg1 ord1 ord1 55 = .fail := by decide +kernel

/-! ### non-vacuity -/

/-- three chromosomes whose processing, merge and BAM orders differ; annotation, `file:` read groups, unaligned reads -/
def cfg3 : Cfg := { chrs := [0, 1, 2], mchrs := [2, 0, 1], bchrs := [1, 2, 0], genedb := true, rg := .file, keepTmp := false,
                    unmapped := true }

def ord3 : List Path := [.bamstat 1, .save 2, .groups 0, .processed 2, .trStat 0, .collected 0, .info, .lock, .multimap 1,
                         .rgSplit 2, .rgLock, .rgSplit 0]

theorem cfg3_wf : WF cfg3 := by
  refine ⟨by decide, by decide, by decide, ?_, ?_⟩ <;> intro c <;>
    simp only [cfg3, List.mem_cons, List.not_mem_nil, or_false] <;>
    constructor <;> rintro (rfl | rfl | rfl) <;> simp

-- the hypotheses of `resume_correct` are met by a concrete non-trivial input: 302 events, kill point 200
example : WF cfg3 ∧ ord3.Nodup ∧ (cleanEvents fixed cfg3 ord3).length = 302 ∧ 2 ≤ 200 ∧
    verdict fixed cfg3 ord3 ord3 200 = .equal :=
  ⟨cfg3_wf, by decide, by decide +kernel, by omega, resume_correct cfg3_wf ord3 ord3 (by decide) (by decide) 200 (by omega)⟩

-- and before `.params` is saved the resumed run does fail (the hypothesis `2 ≤ k` is needed)
example : verdict fixed cfg3 ord3 ord3 1 = .fail := by decide +kernel

end IsoVerif.Props.C07
