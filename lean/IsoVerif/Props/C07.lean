/-
C07 — resuming an interrupted run yields the outputs of an uninterrupted run.

Property theorems over the executable model `IsoVerif.Model.Resume` (file-system protocol of one run; see the header
of Model/Resume.lean and docs/C07.md).  `fixed` is the current /repo, `pinned` the tree before the three `fix:` commits.
Helper lemmas live in IsoVerif/Lemmas/Resume*.lean.

Full-strength statement (`resume_correct`): for every well-formed configuration (any number of chromosomes, any
processing / merge / BAM-header order, with or without annotation, read groups, --keep_tmp, unaligned reads), every
directory order seen by the clean-up globs of either run, and every truncation point `k ≥ 2` of the first run's event
list (`.params` is saved by the first two events), the resumed run completes and every final file equals that of the
uninterrupted run.
-/
import IsoVerif.Lemmas.ResumeHistory

namespace IsoVerif.Props.C07
open IsoVerif.Model.Resume IsoVerif.Lemmas.Resume

/-- the lock/data part of the invariant (what holds of an empty directory as well) -/
def J0 (cfg : Cfg) (fs : FS) : Prop := ∀ l, fs.has l = true → ∀ d ∈ guarded cfg l, fs.good d = true

theorem J0_empty (cfg : Cfg) : J0 cfg FS.empty := by intro l hl; simp at hl

theorem J_J0 {cfg : Cfg} {fs : FS} (h : J cfg fs) : J0 cfg fs := h.2

theorem take_length_add {α : Type} (a b : List α) (n : Nat) : (a ++ b).take (a.length + n) = a ++ b.take n := by
  induction a with
  | nil => simp
  | cons x a ih => simp only [List.cons_append, List.length_cons]; rw [Nat.add_right_comm, List.take_succ_cons, ih]

/-- the state after `.params` has been written -/
def afterParams (fs : FS) : FS := applyAll fs (paramsEvs fixed)

theorem afterParams_other (fs : FS) {p : Path} (h : p ≠ .params) (h' : p ≠ .paramsTmp) : afterParams fs p = fs p := by
  simp [afterParams, paramsEvs, fixed, applyAll, apply, Ev.path, Ev.val, set_other _ _ h, set_other _ _ h']

theorem J_afterParams {cfg : Cfg} {fs : FS} (h : J0 cfg fs) : J cfg (afterParams fs) := by
  refine ⟨by simp [afterParams, paramsEvs, fixed, applyAll, apply, FS.good, FS.set, Ev.path, Ev.val], ?_⟩
  intro l hl d hd
  have hdne : d ≠ .params := by
    intro e; subst e; have := mem_guarded_locksOf hd; simp [locksOf] at this
  have hdne' : d ≠ .paramsTmp := by
    intro e; subst e; have := mem_guarded_locksOf hd; simp [locksOf] at this
  have hlne : l ≠ .params := by
    intro e; subst e; simp [guarded] at hd
  have hlne' : l ≠ .paramsTmp := by
    intro e; subst e; simp [guarded] at hd
  simp only [FS.has, FS.good, afterParams_other fs hdne hdne', afterParams_other fs hlne hlne'] at hl ⊢
  exact h l hl d hd

/-- the four events of `save_params` keep the invariant at every prefix when `.params` was intact before (a resumed run):
    the old file stays in place until the complete new one is renamed over it -/
theorem params_prefix_J {cfg : Cfg} {fs : FS} (h : J cfg fs) : AllP (J cfg) fs (paramsEvs fixed) := by
  have h3 : AllP (J cfg) fs [.create .paramsTmp, .commit .paramsTmp .good, .remove .paramsTmp] := by
    apply allJ_body h
    · intro e he; simp only [List.mem_cons, List.not_mem_nil, or_false] at he
      rcases he with rfl | rfl | rfl <;> simp [Ev.path]
    · intro e he hl; simp only [List.mem_cons, List.not_mem_nil, or_false] at he
      rcases he with rfl | rfl | rfl <;> simp [Ev.path, isLock] at hl
    · intro e he _ l hm; simp only [List.mem_cons, List.not_mem_nil, or_false] at he
      have hn : Path.paramsTmp ∉ guarded cfg l := by
        intro hm'; have := mem_guarded_locksOf hm'; simp [locksOf] at this
      rcases he with rfl | rfl | rfl <;> exact absurd hm hn
  have hJ3 := AllP_last h3
  have h4 : J cfg (apply (applyAll fs [.create .paramsTmp, .commit .paramsTmp .good, .remove .paramsTmp])
      (.commit .params .good)) := by
    refine ⟨by simp [apply, FS.good, FS.set, Ev.path, Ev.val], ?_⟩
    intro l hl d hd
    have hdne : d ≠ .params := by
      intro e; subst e; have := mem_guarded_locksOf hd; simp [locksOf] at this
    have hlne : l ≠ .params := by
      intro e; subst e; simp [guarded] at hd
    simp only [apply, Ev.path, Ev.val, FS.has, FS.good, set_other _ _ hdne, set_other _ _ hlne] at hl ⊢
    exact hJ3.2 l hl d hd
  have : paramsEvs fixed = [.create .paramsTmp, .commit .paramsTmp .good, .remove .paramsTmp] ++ [.commit .params .good] := rfl
  rw [this, AllP_append]
  exact ⟨h3, AllP_single hJ3 h4⟩

theorem lockList_nil_processed {cfg : Cfg} {fs : FS} (h : lockList cfg fs = []) :
    ∀ c ∈ cfg.chrs, fs.has (.processed c) = false := by
  intro c hc
  cases hq : fs.has (.processed c) with
  | false => rfl
  | true =>
    have : Path.processed c ∈ lockList cfg fs := by
      simp only [lockList, List.mem_append, List.mem_map, List.mem_filter]; exact Or.inr ⟨c, ⟨hc, hq⟩, rfl⟩
    rw [h] at this; simp at this

theorem lockList_empty (cfg : Cfg) : lockList cfg FS.empty = [] := by
  simp [lockList]

/-- shape of every run of the repaired code from a state in which the locks vouch only for complete files
    (a fresh run: after its lock-removal step; a resumed run: `.params` intact; with `--read_assignments`: the save
    files complete): it completes, its events are the two `.params` events followed by events along which the
    invariant `J` holds at every prefix, and all final files end up complete and correct -/
theorem run_shape {cfg : Cfg} (wf : WF cfg) (ord : List Path) (hord : ord.Nodup) (rs : Bool) {fs : FS}
    (h : J0 cfg fs) (hp : rs = true → fs.good .params = true) (hcl : rs = false → lockList cfg fs = [])
    (hsv : cfg.fromSaves = true → SavesOK cfg fs) :
    ∃ rest : List Ev,
      (run fixed cfg ord rs fs).evs = paramsEvs fixed ++ rest ∧
      (run fixed cfg ord rs fs).ok = true ∧
      AllP (J cfg) (afterParams fs) rest ∧
      FinOK cfg (run fixed cfg ord rs fs).fs := by
  have hj := J_afterParams h
  have hlk : (afterParams fs).has .lock = fs.has .lock := by
    simp only [FS.has]; rw [afterParams_other fs (by simp) (by simp)]
  have hrun : run fixed cfg ord rs fs = runStages (stages fixed cfg ord rs (rs && fs.has .lock)) fs := by
    cases rs with
    | true => simpa using run_resume_eq cfg ord fs
    | false => simpa using run_fresh_eq cfg ord (hcl rfl)
  obtain ⟨hg, hfin⟩ := rest_run_ref wf ord hord rs (rs && fs.has .lock) hj
    (by intro e; simp only [Bool.and_eq_true] at e; exact e.1)
    (by intro e; simp only [Bool.and_eq_true] at e; rw [hlk]; exact e.2)
    (by intro e _ e'; rw [hlk]; subst e'; simpa using e)
    (fun e => savesOK_frame (hsv e) (afterParams_other fs (by simp) (by simp)) (fun _ => afterParams_other fs (by simp) (by simp))
      (fun _ => afterParams_other fs (by simp) (by simp)))
    (by intro _ e c hc; rw [FS.has, afterParams_other fs (by simp) (by simp)]; exact lockList_nil_processed (hcl e) c hc)
  have hck : ChecksOK (paramsStage fixed rs fs) fs := by
    unfold paramsStage
    cases rs with
    | false => exact checks_evs _ _
    | true => exact ⟨hp rfl, checks_evs _ _⟩
  have hev : eventsOf (paramsStage fixed rs fs) = paramsEvs fixed := by
    unfold paramsStage; cases rs <;> simp [eventsOf, eventsOf_append]
  obtain ⟨hok0, hevs0⟩ := runActs_of_checks hck
  have hfs0 : (runActs (paramsStage fixed rs fs) fs).fs = afterParams fs := by
    rw [runActs_fs, hevs0, hev]; rfl
  refine ⟨(runStages (refStage fixed cfg rs :: restStages cfg ord rs ((rs && fs.has .lock) || cfg.fromSaves))
    (afterParams fs)).evs, ?_, ?_, hg.2, ?_⟩
  · simp only [hrun, stages_eq, runStages, hok0, if_true, hevs0, hev, hfs0]
  · simp only [hrun, stages_eq, runStages, hok0, if_true, hfs0]; exact hg.1
  · simp only [hrun, stages_eq, runStages, hok0, if_true, hfs0]; exact hfin

/-- **crash consistency**: whenever the (first or a resumed) run is killed after its parameters were saved, every lock
    file that exists vouches only for complete, correct files, and `.params` is intact -/
theorem crash_state_invariant {cfg : Cfg} (wf : WF cfg) (ord : List Path) (hord : ord.Nodup) (rs : Bool) {fs : FS}
    (h : J0 cfg fs) (hp : rs = true → fs.good .params = true) (hcl : rs = false → lockList cfg fs = [])
    (hsv : cfg.fromSaves = true → SavesOK cfg fs) (k : Nat) (hk : 4 ≤ k ∨ rs = true) :
    J cfg (applyAll fs ((run fixed cfg ord rs fs).evs.take k)) := by
  obtain ⟨rest, hevs, _, hall, _⟩ := run_shape wf ord hord rs h hp hcl hsv
  rw [hevs]
  by_cases h4 : 4 ≤ k
  · obtain ⟨k', rfl⟩ : ∃ k', k = (paramsEvs fixed).length + k' := ⟨k - 4, by simp [paramsEvs, fixed]; omega⟩
    rw [take_length_add, applyAll_append]
    exact AllP_take hall k'
  · -- a resumed run killed inside save_params: `.params` of the interrupted run is still in place
    have hrs : rs = true := by rcases hk with hk | hk; exact absurd hk h4; exact hk
    have hlt : k ≤ (paramsEvs fixed).length := by simp [paramsEvs, fixed]; omega
    rw [List.take_append_of_le_length hlt]
    exact AllP_take (params_prefix_J ⟨hp hrs, h⟩) k

/-! ### runs that do not start in an empty folder -/

/-- `--read_assignments`: the save files are complete, and a `_collected` lock found next to them vouches for complete
    files (they were written by a run that finished read collection) -/
def SavesConsistent (cfg : Cfg) (fs : FS) : Prop :=
  SavesOK cfg fs ∧ ∀ c ∈ cfg.chrs, fs.has (.collected c) = true → fs.good (.groups c) = true ∧ fs.good (.bamstat c) = true

/-- an index of the reference that the run finds inside the output folder and will read as it is (`idxTrusted`: not the index
    of the always-rewritten copy of a plain-gzip reference) is complete — it was supplied by the user or written by the
    repaired code, which only ever renames a complete file into place -/
def IndexSound (cfg : Cfg) (fs : FS) : Prop :=
  idxTrusted cfg = true → fs.has .refFai = true → fs.good .refFaiData = true

theorem indexSound_empty (cfg : Cfg) : IndexSound cfg FS.empty := by intro _ h; simp at h

theorem indexSound_of_not_trusted {cfg : Cfg} (h : idxTrusted cfg = false) (fs : FS) : IndexSound cfg fs := by
  intro e; rw [h] at e; exact absurd e (by simp)

/-- after the lock-removal step of a fresh run no lock vouches for anything it should not -/
theorem J0_cleaned {cfg : Cfg} (fs : FS) (hs : cfg.fromSaves = true → SavesConsistent cfg fs) (hi : IndexSound cfg fs) :
    J0 cfg (cleaned cfg fs) := by
  intro l hl d hd
  rcases guarded_lock_cases hd with rfl | rfl | ⟨c, hc, rfl⟩ | ⟨c, hc, rfl⟩ | ⟨rfl, rfl, ht⟩
  rotate_right
  · have hnl : Path.refFai ∉ lockList cfg fs := by
      intro hm
      simp only [lockList, List.mem_append, List.mem_map, List.mem_filter] at hm
      rcases hm with (⟨hm, _⟩ | ⟨c, _, e⟩) | ⟨c, _, e⟩
      · split at hm <;> simp at hm
      · cases e
      · cases e
    rw [FS.has, cleaned_val, if_neg hnl] at hl
    rw [FS.good, cleaned_other cfg fs rfl]
    exact hi ht hl
  · cases hm : cfg.fromSaves with
    | false => rw [(cleaned_bam_locks hm fs).1] at hl; exact absurd hl (by simp)
    | true =>
      have hsv := (hs hm).1
      have hdl := guarded_not_lock hd
      rw [FS.good, cleaned_other cfg fs hdl]
      simp only [guarded, List.mem_cons, List.mem_flatMap, List.not_mem_nil, or_false] at hd
      rcases hd with rfl | ⟨c, hc, rfl | rfl⟩
      · exact hsv.1
      · exact (hsv.2 c hc).1
      · exact (hsv.2 c hc).2
  · rw [cleaned_rgLock] at hl; exact absurd hl (by simp)
  · cases hm : cfg.fromSaves with
    | false => rw [(cleaned_bam_locks hm fs).2 c hc] at hl; exact absurd hl (by simp)
    | true =>
      have hcons := hs hm
      have hdl := guarded_not_lock hd
      rw [FS.good, cleaned_other cfg fs hdl]
      have hcol := cleaned_has_le cfg fs _ hl
      simp only [guarded, hc, if_true, List.mem_cons, List.not_mem_nil, or_false] at hd
      rcases hd with rfl | rfl | rfl
      · exact (hcons.1.2 c hc).2
      · exact (hcons.2 c hc hcol).1
      · exact (hcons.2 c hc hcol).2
  · rw [cleaned_processed fs hc] at hl; exact absurd hl (by simp)

/-- **history clause**: the run is started on *any* file system `fs0` — whatever an earlier run with other options or
    inputs left in the output folder, killed at any point — (with `--read_assignments`: on complete save files plus
    arbitrary leftovers), killed after any `k` events once its own parameters are saved (the lock-removal step comes
    first: `k ≥ |locks found| + 2`), and resumed: the resumed run completes and every final file equals that of the
    uninterrupted run on `fs0` -/
theorem resume_correct_from {cfg : Cfg} (wf : WF cfg) (ord ord' : List Path) (hord : ord.Nodup) (hord' : ord'.Nodup)
    (fs0 : FS) (hs : cfg.fromSaves = true → SavesConsistent cfg fs0) (hi : IndexSound cfg fs0) (k : Nat)
    (hk : (lockList cfg fs0).length + 4 ≤ k) : verdictFrom fixed cfg ord ord' fs0 k = .equal := by
  obtain ⟨hevs, hok0, hfs0⟩ := run_split wf ord fs0
  have hJ0 := J0_cleaned fs0 hs hi
  have hcl : lockList cfg (cleaned cfg fs0) = [] := lockList_cleaned cfg fs0
  have hsv1 : cfg.fromSaves = true → SavesOK cfg (cleaned cfg fs0) := fun e =>
    savesOK_frame (hs e).1 (cleaned_other cfg fs0 rfl) (fun _ => cleaned_other cfg fs0 rfl) (fun _ => cleaned_other cfg fs0 rfl)
  obtain ⟨k', rfl⟩ : ∃ k', k = (lockList cfg fs0).length + k' := ⟨k - (lockList cfg fs0).length, by omega⟩
  have hk' : 4 ≤ k' := by omega
  -- the crash state is a crash state of the run on the cleaned folder
  have hcrash : crashFSFrom fixed cfg ord fs0 ((lockList cfg fs0).length + k') =
      applyAll (cleaned cfg fs0) ((run fixed cfg ord false (cleaned cfg fs0)).evs.take k') := by
    simp only [crashFSFrom, cleanEventsFrom, hevs]
    have := take_length_add ((lockList cfg fs0).map Ev.remove) (run fixed cfg ord false (cleaned cfg fs0)).evs k'
    rw [List.length_map] at this
    rw [this, applyAll_append]; rfl
  have hJ : J cfg (crashFSFrom fixed cfg ord fs0 ((lockList cfg fs0).length + k')) := by
    rw [hcrash]
    exact crash_state_invariant wf ord hord false hJ0 (by simp) (fun _ => hcl) hsv1 k' (Or.inl hk')
  have hsvc : cfg.fromSaves = true → SavesOK cfg (crashFSFrom fixed cfg ord fs0 ((lockList cfg fs0).length + k')) := by
    intro e
    rw [hcrash]
    have hunt : ∀ p, notSaves p = false →
        applyAll (cleaned cfg fs0) ((run fixed cfg ord false (cleaned cfg fs0)).evs.take k') p = cleaned cfg fs0 p := by
      intro p hp
      apply applyAll_untouched
      intro ev hev hpe
      have := saves_untouched wf e ord false (false && (cleaned cfg fs0).has .lock) (cleaned cfg fs0) ev (List.mem_of_mem_take hev)
      rw [hpe, hp] at this; exact absurd this (by simp)
    exact savesOK_frame (hsv1 e) (hunt _ rfl) (fun _ => hunt _ rfl) (fun _ => hunt _ rfl)
  obtain ⟨_, _, hok, _, hfin⟩ := run_shape wf ord' hord' true hJ.2 (fun _ => hJ.1) (by simp) hsvc
  obtain ⟨_, _, _, _, hfin1⟩ := run_shape wf ord hord false hJ0 (by simp) (fun _ => hcl) hsv1
  simp only [verdictFrom, hok, Bool.not_true, Bool.false_eq_true, if_false]
  have : sameFinals cfg (run fixed cfg ord' true (crashFSFrom fixed cfg ord fs0 ((lockList cfg fs0).length + k'))).fs
      (run fixed cfg ord false fs0).fs = true := by
    simp only [sameFinals, List.all_eq_true, beq_iff_eq]
    intro p hp
    have h1 := hfin p hp
    have h2 := hfin1 p hp
    simp only [FS.good, beq_iff_eq] at h1 h2
    rw [h1, hfs0, h2]
  simp [this]

/-- the output folder already holds the remains of an earlier (killed or finished) run with other options: any leftovers -/
theorem resume_correct_dirty_folder {cfg : Cfg} (wf : WF cfg) (hm : cfg.fromSaves = false) (ord ord' : List Path)
    (hord : ord.Nodup) (hord' : ord'.Nodup) (fs0 : FS) (hi : IndexSound cfg fs0) (k : Nat)
    (hk : (lockList cfg fs0).length + 4 ≤ k) :
    verdictFrom fixed cfg ord ord' fs0 k = .equal :=
  resume_correct_from wf ord ord' hord hord' fs0 (fun e => by rw [hm] at e; exact absurd e (by simp)) hi k hk

/-- `--read_assignments`: run from kept save files (complete; any stale `_processed` locks, statistics files or other
    leftovers next to them), kill, resume -/
theorem resume_correct_read_assignments {cfg : Cfg} (wf : WF cfg) (hm : cfg.fromSaves = true) (ord ord' : List Path)
    (hord : ord.Nodup) (hord' : ord'.Nodup) (fs0 : FS) (hs : SavesConsistent cfg fs0) (hi : IndexSound cfg fs0) (k : Nat)
    (hk : (lockList cfg fs0).length + 4 ≤ k) : verdictFrom fixed cfg ord ord' fs0 k = .equal :=
  resume_correct_from wf ord ord' hord hord' fs0 (fun _ => hs) hi k hk

/-- **full-strength property** (fresh output folder, BAM input): kill the first run after any `k ≥ 2` events, resume:
    the resumed run completes and every final file equals that of the uninterrupted run -/
theorem resume_correct {cfg : Cfg} (wf : WF cfg) (hm : cfg.fromSaves = false) (ord ord' : List Path) (hord : ord.Nodup)
    (hord' : ord'.Nodup) (k : Nat) (hk : 4 ≤ k) : verdict fixed cfg ord ord' k = .equal := by
  have := resume_correct_dirty_folder wf hm ord ord' hord hord' FS.empty (indexSound_empty cfg) k (by rw [lockList_empty]; simpa using hk)
  exact this

/-- safety half: a resumed run never exits successfully with different, truncated or missing results -/
theorem resume_never_silently_wrong {cfg : Cfg} (wf : WF cfg) (hm : cfg.fromSaves = false) (ord ord' : List Path)
    (hord : ord.Nodup) (hord' : ord'.Nodup) (k : Nat) (hk : 4 ≤ k) : verdict fixed cfg ord ord' k ≠ .diff := by
  rw [resume_correct wf hm ord ord' hord hord' k hk]; decide

/-- liveness half: the resumed run completes -/
theorem resume_completes {cfg : Cfg} (wf : WF cfg) (hm : cfg.fromSaves = false) (ord ord' : List Path)
    (hord : ord.Nodup) (hord' : ord'.Nodup) (k : Nat) (hk : 4 ≤ k) : verdict fixed cfg ord ord' k ≠ .fail := by
  rw [resume_correct wf hm ord ord' hord hord' k hk]; decide

/-- the uninterrupted run itself completes with complete final files -/
theorem clean_run_completes {cfg : Cfg} (wf : WF cfg) (hm : cfg.fromSaves = false) (ord : List Path) (hord : ord.Nodup) :
    (run fixed cfg ord false FS.empty).ok = true ∧ FinOK cfg (run fixed cfg ord false FS.empty).fs := by
  obtain ⟨_, _, hok, _, hfin⟩ := run_shape wf ord hord false (J0_empty cfg) (by simp) (fun _ => lockList_empty cfg)
    (fun e => by rw [hm] at e; exact absurd e (by simp))
  exact ⟨hok, hfin⟩

/-! ### any number of interruptions -/

/-- the file system after a chain of killed runs: the first run starts in an empty directory, every later one is a
    `--resume`; each is killed after `k` events (its own directory order `ord`) -/
def afterCrashes (cfg : Cfg) : List (List Path × Nat) → Bool → FS → FS
  | [], _, fs => fs
  | (ord, k) :: rest, rs, fs => afterCrashes cfg rest true (applyAll fs ((run fixed cfg ord rs fs).evs.take k))

theorem afterCrashes_J {cfg : Cfg} (wf : WF cfg) (hm : cfg.fromSaves = false) (chain : List (List Path × Nat))
    (hc : ∀ x ∈ chain, x.1.Nodup) (rs : Bool) (h0 : rs = false → ∀ x ∈ chain.head?, 4 ≤ x.2) {fs : FS} (h : J0 cfg fs)
    (hp : rs = true → fs.good .params = true) (hcl : rs = false → lockList cfg fs = []) (hne : chain ≠ []) :
    J cfg (afterCrashes cfg chain rs fs) := by
  induction chain generalizing rs fs with
  | nil => exact absurd rfl hne
  | cons x chain ih =>
    obtain ⟨ord, k⟩ := x
    have hx := hc (ord, k) (by simp)
    have hk : 4 ≤ k ∨ rs = true := by
      cases rs with
      | true => exact Or.inr rfl
      | false => exact Or.inl (h0 rfl (ord, k) (by simp))
    have hJ := crash_state_invariant wf ord hx rs h hp hcl (fun e => by rw [hm] at e; exact absurd e (by simp)) k hk
    simp only [afterCrashes]
    cases chain with
    | nil => exact hJ
    | cons y chain =>
      exact ih (fun z hz => hc z (by simp [hz])) true (fun e => absurd e (by simp)) hJ.2 (fun _ => hJ.1) (by simp) (by simp)

/-- **any number of interruptions, full strength**: the first run is killed at any point after its parameters were saved
    (`4 ≤ k₁`: `.params.tmp` written, closed and renamed), every resumed run at **any** point — also inside its own
    `save_params`, whose rename leaves the parameters of the interrupted run in place until the new file is complete —;
    the final `--resume` completes with all final files complete and correct -/
theorem resume_correct_after_repeated_crashes {cfg : Cfg} (wf : WF cfg) (hm : cfg.fromSaves = false) (chain : List (List Path × Nat))
    (hc : ∀ x ∈ chain, x.1.Nodup) (h0 : ∀ x ∈ chain.head?, 4 ≤ x.2) (hne : chain ≠ []) (ord : List Path) (hord : ord.Nodup) :
    (run fixed cfg ord true (afterCrashes cfg chain false FS.empty)).ok = true ∧
      FinOK cfg (run fixed cfg ord true (afterCrashes cfg chain false FS.empty)).fs := by
  have hJ := afterCrashes_J wf hm chain hc false (fun _ => h0) (J0_empty cfg) (by simp) (fun _ => lockList_empty cfg) hne
  obtain ⟨_, _, hok, _, hfin⟩ := run_shape wf ord hord true hJ.2 (fun _ => hJ.1) (by simp)
    (fun e => by rw [hm] at e; exact absurd e (by simp))
  exact ⟨hok, hfin⟩


/-! ### the pinned behaviours (before the `fix:` commits) violate the property: witnesses

`cfg1` / `ord1` are the toy run (one chromosome, annotation, no read groups; the clean-up order is the directory order
observed on the pinned tree).  Each variant switches exactly one repair off. -/

/-- one chromosome, annotation, no read groups, unaligned reads present -/
def cfg1 : Cfg := { chrs := [0], mchrs := [0], bchrs := [0], genedb := true, rg := .none, keepTmp := false, unmapped := true,
                    fromSaves := false }

def ord1 : List Path := [.info, .multimap 0, .lock, .save 0, .processed 0, .bamstat 0, .readStat 0, .collected 0, .groups 0,
                         .trStat 0, .rgLock]

/-- `_collected` / `_processed` written before the guarded files are flushed (as pinned) -/
def lockBeforeFlushBuggy : Variant := { fixed with flushBeforeLock := false }
/-- `_processed` locks kept while the per-chromosome files are merged and deleted (as pinned) -/
def mergeKeepsLocksBuggy : Variant := { fixed with dropProcessed := false }
/-- clean-up in directory order, locks not first (as pinned) -/
def cleanupAnyOrderBuggy : Variant := { fixed with locksFirst := false }
/-- unaligned reads not recounted when collection is skipped (as pinned) -/
def unalignedForgottenBuggy : Variant := { fixed with countUnaligned := false }

/-- safety fails: killed right after the `_processed` lock appeared (event 49 = `create processed 0`, the printers'
    buffers not yet flushed), the resumed run exits successfully with truncated results -/
theorem resume_never_silently_wrong_lock_before_flush_witness :
    (cleanEvents lockBeforeFlushBuggy cfg1 ord1)[50]? = some (.create (.processed 0)) ∧
    verdict lockBeforeFlushBuggy cfg1 ord1 ord1 51 = .diff := by decide +kernel

/-- liveness fails: killed right after the `_collected` lock appeared (the dump not yet terminated), the resumed run raises -/
theorem resume_completes_lock_before_flush_witness :
    (cleanEvents lockBeforeFlushBuggy cfg1 ord1)[11]? = some (.create (.collected 0)) ∧
    verdict lockBeforeFlushBuggy cfg1 ord1 ord1 12 = .fail := by decide +kernel

/-- liveness fails (class merge-in-progress): killed after the first removal of a per-chromosome file while the
    `_processed` lock still exists, the resumed run raises (FileNotFoundError in merge_files) -/
theorem resume_completes_merge_in_progress_witness :
    (cleanEvents mergeKeepsLocksBuggy cfg1 ord1)[56]? = some (.remove (.part .gtf 0)) ∧
    verdict mergeKeepsLocksBuggy cfg1 ord1 ord1 57 = .fail := by decide +kernel

/-- liveness fails (class cleanup-before-lock-removal): killed after the clean-up removed the info file while the stage
    lock still exists, the resumed run raises -/
theorem resume_completes_cleanup_before_lock_removal_witness :
    (cleanEvents cleanupAnyOrderBuggy cfg1 ord1)[85]? = some (.remove .info) ∧
    verdict cleanupAnyOrderBuggy cfg1 ord1 ord1 86 = .fail := by decide +kernel

/-- safety fails: killed once read collection has finished (event 16 = stage lock written), the resumed run skips the
    collection, reports `__not_aligned 0` and exits successfully -/
theorem resume_never_silently_wrong_unaligned_witness :
    (cleanEvents unalignedForgottenBuggy cfg1 ord1)[17]? = some (.create .lock) ∧
    verdict unalignedForgottenBuggy cfg1 ord1 ord1 18 = .diff := by decide +kernel

/-- the pinned tree (all four repairs off): silently wrong at 16, failing at 10 and 55 -/
theorem pinned_witness :
    verdict pinned cfg1 ord1 ord1 16 = .diff ∧ verdict pinned cfg1 ord1 ord1 10 = .fail ∧
    verdict pinned cfg1 ord1 ord1 55 = .fail := by decide +kernel

/-! ### history clauses: witnesses for the two behaviours that violate them -/

def fsOf (l : List (Path × Tok)) : FS := l.foldl (fun fs x => fs.set x.1 (some x.2)) FS.empty

/-- what an earlier run with other options left when it was killed during read collection (after chromosome 0 got its
    `_collected` lock): complete files with other content -/
def leftover1 : FS := fsOf [(.params, .stale), (.rgLock, .stale), (.save 0, .stale), (.groups 0, .stale),
                            (.bamstat 0, .stale), (.collected 0, .stale)]

/-- the tree before `fix:` 428ba30: stale locks are dropped only inside collect_reads, after `.params` was saved -/
def staleLocksKeptBuggy : Variant := { fixed with cleanBeforeParams := false }

/-- a fresh run over `leftover1` killed right after it saved its parameters: the resumed run trusts the earlier run's
    `_collected` lock and exits successfully with results computed from the earlier run's data -/
theorem resume_never_silently_wrong_dirty_folder_witness :
    (cleanEventsFrom staleLocksKeptBuggy cfg1 ord1 leftover1)[3]? = some (.commit .params .good) ∧
    verdictFrom staleLocksKeptBuggy cfg1 ord1 ord1 leftover1 4 = .diff := by decide +kernel

/-- `--read_assignments` on the toy configuration -/
def cfgS : Cfg := { cfg1 with fromSaves := true, unmapped := false }

/-- complete save files of a run that finished read collection -/
def saves1 : FS := fsOf [(.info, .good), (.multimap 0, .good), (.save 0, .good), (.lock, .good), (.collected 0, .good),
                         (.groups 0, .good), (.bamstat 0, .good)]

/-- the same with the `_processed` lock and statistics files of an earlier killed run next to them -/
def saves1Stale : FS := fsOf [(.info, .good), (.multimap 0, .good), (.save 0, .good), (.lock, .good), (.collected 0, .good),
                              (.groups 0, .good), (.bamstat 0, .good), (.processed 0, .stale), (.readStat 0, .stale),
                              (.trStat 0, .stale)]

/-- the `_processed` locks looked for under the sample's own prefix instead of next to the save files (seeded change) -/
def dropWrongPrefixBuggy : Variant := { fixed with dropAtDumpPrefix := false }

/-- `--read_assignments`, killed after the first per-chromosome file was merged away: the `_processed` lock is still
    there, the resumed run raises — it can never complete -/
theorem resume_completes_read_assignments_witness :
    (cleanEventsFrom dropWrongPrefixBuggy cfgS ord1 saves1)[43]? = some (.remove (.part .gtf 0)) ∧
    verdictFrom dropWrongPrefixBuggy cfgS ord1 ord1 saves1 44 = .fail := by decide +kernel

/-- `--read_assignments` on save files carrying a stale `_processed` lock, before 428ba30: killed during model
    construction, the resumed run skips the chromosome and exits successfully with truncated results (k = 31), or
    raises (k = 2) -/
theorem resume_never_silently_wrong_stale_processed_witness :
    verdictFrom staleLocksKeptBuggy cfgS ord1 ord1 saves1Stale 33 = .diff ∧
    verdictFrom staleLocksKeptBuggy cfgS ord1 ord1 saves1Stale 4 = .fail := by decide +kernel

/-! ### `--sqanti_output`, several experiments: witnesses for two seeded changes -/

/-- the toy configuration with `--sqanti_output` -/
def cfgQ : Cfg := { cfg1 with sqanti := true }

/-- the rows of the per-chromosome SQANTI-like table reach the disk only when their printer dies, after the `_processed`
    lock (seeded change: the aggregator's own header-only printer is flushed instead of the task's) -/
def sqantiNotFlushedBuggy : Variant := { fixed with flushSqanti := false }

/-- killed right after the `_processed` lock appeared (event 57 = `create processed 0`): the resumed run skips the
    chromosome and exits successfully with a truncated SQANTI-like table -/
theorem resume_never_silently_wrong_sqanti_witness :
    (cleanEvents sqantiNotFlushedBuggy cfgQ ord1)[58]? = some (.create (.processed 0)) ∧
    verdict sqantiNotFlushedBuggy cfgQ ord1 ord1 59 = .diff := by decide +kernel

/-- the toy configuration as a second experiment of an invocation whose first experiment has unaligned reads -/
def cfgB : Cfg := { cfg1 with carried := true }

/-- the alignment counter reset only where reads are collected (seeded change: the reset moved from process_sample into
    collect_reads, after the early return of a resumed run that finds the stage lock) -/
def counterNotResetBuggy : Variant := { fixed with resetCounter := false }

/-- killed once the read collection of the later experiment has finished (event 16 = stage lock written): the resumed run
    skips the collection, adds this experiment's unaligned reads to those of the earlier experiments and exits
    successfully with a wrong `__not_aligned` line -/
theorem resume_never_silently_wrong_carried_counter_witness :
    (cleanEvents counterNotResetBuggy cfgB ord1)[17]? = some (.create .lock) ∧
    verdict counterNotResetBuggy cfgB ord1 ord1 18 = .diff := by decide +kernel

-- `resume_correct` covers both dimensions: the same kill points on the repaired code
example : verdict fixed cfgQ ord1 ord1 59 = .equal ∧ verdict fixed cfgB ord1 ord1 18 = .equal :=
  ⟨resume_correct (cfg := cfgQ) ⟨by decide, by decide, by decide, fun _ => Iff.rfl, fun _ _ h => h⟩ rfl ord1 ord1
      (by decide) (by decide) 59 (by omega),
   resume_correct (cfg := cfgB) ⟨by decide, by decide, by decide, fun _ => Iff.rfl, fun _ _ h => h⟩ rfl ord1 ord1
      (by decide) (by decide) 18 (by omega)⟩

/-! ### non-vacuity -/

/-- three chromosomes whose processing, merge and BAM orders differ; annotation, `file:` read groups, unaligned reads -/
def cfg3 : Cfg := { chrs := [0, 1, 2], mchrs := [2, 0, 1], bchrs := [1, 2, 0], genedb := true, rg := .file, keepTmp := false,
                    unmapped := true, fromSaves := false }

def ord3 : List Path := [.bamstat 1, .save 2, .groups 0, .processed 2, .trStat 0, .collected 0, .info, .lock, .multimap 1,
                         .rgSplit 2, .rgLock, .rgSplit 0]

theorem cfg3_wf : WF cfg3 := by
  refine ⟨by decide, by decide, by decide, ?_, by decide⟩
  intro c
  simp only [cfg3, List.mem_cons, List.not_mem_nil, or_false]
  constructor <;> rintro (rfl | rfl | rfl) <;> simp

-- the hypotheses of `resume_correct` are met by a concrete non-trivial input: 302 events, kill point 200
example : WF cfg3 ∧ ord3.Nodup ∧ (cleanEvents fixed cfg3 ord3).length = 304 ∧ 4 ≤ 200 ∧
    verdict fixed cfg3 ord3 ord3 200 = .equal :=
  ⟨cfg3_wf, by decide, by decide +kernel, by omega, resume_correct cfg3_wf rfl ord3 ord3 (by decide) (by decide) 200 (by omega)⟩

-- and before `.params` is saved the resumed run does fail (the hypothesis `4 ≤ k` is needed)
example : verdict fixed cfg3 ord3 ord3 3 = .fail := by decide +kernel


-- the history clauses are met by concrete inputs: a dirty folder with two locks to remove (kill point 6 = right after
-- `.params`), and save files with a stale `_processed` lock (one lock to remove, kill point 5)
example : (lockList cfg1 leftover1).length + 4 ≤ 6 ∧ verdictFrom fixed cfg1 ord1 ord1 leftover1 6 = .equal :=
  ⟨by decide, resume_correct_dirty_folder (cfg := cfg1) ⟨by decide, by decide, by decide, fun _ => Iff.rfl, fun _ _ h => h⟩ rfl
      ord1 ord1 (by decide) (by decide) leftover1 (indexSound_of_not_trusted rfl _) 6 (by decide)⟩

theorem saves1Stale_consistent : SavesConsistent cfgS saves1Stale := by
  refine ⟨⟨by decide, ?_⟩, ?_⟩
  · intro c hc; simp only [cfgS, cfg1, List.mem_cons, List.not_mem_nil, or_false] at hc; subst hc; exact ⟨by decide, by decide⟩
  · intro c hc _; simp only [cfgS, cfg1, List.mem_cons, List.not_mem_nil, or_false] at hc; subst hc; exact ⟨by decide, by decide⟩

example : (lockList cfgS saves1Stale).length + 4 ≤ 5 ∧ verdictFrom fixed cfgS ord1 ord1 saves1Stale 5 = .equal :=
  ⟨by decide, resume_correct_read_assignments (cfg := cfgS) ⟨by decide, by decide, by decide, fun _ => Iff.rfl, fun _ _ h => h⟩ rfl
      ord1 ord1 (by decide) (by decide) saves1Stale saves1Stale_consistent (indexSound_of_not_trusted rfl _) 5 (by decide)⟩

end IsoVerif.Props.C07
