/-
C08 — differential form of "the alignments that lose are suppressed everywhere" (audit-2 GAP C08-1): resolving a read
WITHOUT the records that lost gives exactly the retained records of the full resolution - the losers influence nothing
the consumers of the retained records can see (types and multimapper flag included).
Property theorem only; helper lemmas live in IsoVerif/Lemmas/ResolverDiff.lean.
-/
import IsoVerif.Model.Resolver
import IsoVerif.Lemmas.Resolver
import IsoVerif.Lemmas.ResolverSpec
import IsoVerif.Lemmas.ResolverDiff
import IsoVerif.Props.C08Spec
import IsoVerif.Props.C08

namespace IsoVerif.Props.C08Diff
open IsoVerif.Gen IsoVerif.Model.Resolver IsoVerif.Lemmas.Resolver IsoVerif.Lemmas.ResolverSpec IsoVerif.Lemmas.ResolverDiff
open IsoVerif.Props.C08

/-- **losers_do_not_influence** (the differential form of "suppressed everywhere").  For a read with at least two records:
    let `kept` be the input records (with their positions) that the resolution retains - `retained out` is `kept`
    re-flagged.  Resolving the read with ONLY these records, the losers removed, returns exactly `retained out`: the
    same records, types and multimapper flags included.  So nothing downstream of the resolver can tell whether the
    losing alignments were in the input. -/
theorem losers_do_not_influence (l : List Rec) (h2 : 2 ≤ l.length) (hin : NoSuspendedInput l) (out : List Rec)
    (hout : resolve .take_best l = some out) :
    ∃ kept : List IRec, kept.Sublist l.zipIdx ∧
      retained out = kept.map (fun x => flag (changeT kept) (changeG kept) x.1) ∧
      resolve .take_best (kept.map (·.1)) = some (retained out) := by
  have hl : l ≠ [] := by intro h; simp [h] at h2
  obtain ⟨cand, _, hsel, hsub, _, hwin, _, hone⟩ := priority_candidates l hl
  have hout' : out = applyKeep l (findDuplicates cand) := by
    have := (resolve_take_best l h2).symm.trans hout
    rw [hsel] at this; exact (Option.some.inj this).symm
  subst hout'
  have hKc : (findDuplicates cand).Sublist cand := firstWins_sublist _ cand
  have hksub : (findDuplicates cand).Sublist l.zipIdx := hKc.trans hsub
  have hret := retained_applyKeep_eq hksub hin
  refine ⟨findDuplicates cand, hksub, hret, ?_⟩
  generalize hK : findDuplicates cand = K at *
  by_cases hlen : K.length ≤ 1
  · -- at most one record is retained: it is returned as it is
    have hres : resolve .take_best (K.map (·.1)) = some (K.map (·.1)) := by
      simp [resolve, hlen]
    rw [hres, hret, changeT_of_length_le_one hlen, changeG_of_length_le_one hlen]
    simp [flag_false_false]
  · have hK2 : 2 ≤ K.length := by omega
    -- some record is assigned (otherwise exactly one candidate)
    have hA : Has Cons l ∨ Has Inc l := by
      apply Classical.byContradiction
      intro hn
      have hc : ¬ Has Cons l := fun h => hn (Or.inl h)
      have hi : ¬ Has Inc l := fun h => hn (Or.inr h)
      obtain ⟨x, _, _, hcx, _⟩ := hone hc hi
      have := hKc.length_le
      rw [hcx] at this
      simp at this; omega
    let s := K.map (·.1)
    have hs : ∀ r ∈ s, r ∈ l ∧ Winner l r := by
      intro r hr
      obtain ⟨x, hx, rfl⟩ := List.mem_map.mp hr
      exact ⟨mem_of_mem_zipIdx (hksub.subset hx), hwin x (hKc.subset hx)⟩
    have hws := winner_sub l s hs hA
    have hs2 : 2 ≤ s.length := by simpa [s] using hK2
    have hsne : s ≠ [] := by intro h; simp [h] at hs2
    obtain ⟨cand', _, hsel', hsub', _, _, hall', _⟩ := priority_candidates s hsne
    have hA' : Has Cons s ∨ Has Inc s := by
      cases hs' : s with
      | nil => exact absurd hs' hsne
      | cons r0 rest =>
        have hr0 : r0 ∈ s := by rw [hs']; simp
        rcases winner_assigned (hs r0 hr0).2 hA with h | h
        · exact Or.inl ⟨r0, by simp, h⟩
        · exact Or.inr ⟨r0, by simp, h⟩
    have hcand' : cand' = s.zipIdx :=
      sublist_eq_of_superset hsub' (fun x hx => hall' hA' x hx (hws x.1 (mem_of_mem_zipIdx hx))) (zipIdx_nodup s)
    have hfst : s.zipIdx.map Prod.fst = s := by simp
    have hpw : s.zipIdx.Pairwise (fun a b : IRec => recEq a.1 b.1 = false) := by
      have h1 : K.Pairwise (fun a b : IRec => recEq a.1 b.1 = false) := by
        rw [← hK]; exact firstWins_pairwise _ cand
      have h2 : s.Pairwise (fun a b : Rec => recEq a b = false) := by
        simpa [s, List.pairwise_map] using h1
      rw [← hfst, List.pairwise_map] at h2
      exact h2
    have hdup : findDuplicates s.zipIdx = s.zipIdx := by
      unfold findDuplicates firstWins
      rw [firstWinsAux_of_pairwise _ _ [] (by simpa using hpw)]
      simp
    have hT : changeT s.zipIdx = changeT K := by
      unfold changeT
      have : s.zipIdx.flatMap (fun x => x.1.isoforms) = K.flatMap (fun x => x.1.isoforms) := by
        rw [← List.flatMap_map (f := Prod.fst) (g := fun r : Rec => r.isoforms), hfst]
        simp [s, List.flatMap_map]
      rw [this]; simp [s]
    have hG : changeG s.zipIdx = changeG K := by
      unfold changeG
      have : s.zipIdx.flatMap (fun x => x.1.genes) = K.flatMap (fun x => x.1.genes) := by
        rw [← List.flatMap_map (f := Prod.fst) (g := fun r : Rec => r.genes), hfst]
        simp [s, List.flatMap_map]
      rw [this]; simp [s]
    have happly : applyKeep s s.zipIdx = s.map (flag (changeT s.zipIdx) (changeG s.zipIdx)) := by
      have : applyKeep s s.zipIdx = s.zipIdx.map (fun x => flag (changeT s.zipIdx) (changeG s.zipIdx) x.1) := by
        simp only [applyKeep, changeT, changeG]
        apply List.map_congr_left
        intro x hx
        have hc : (s.zipIdx.map (·.2)).contains x.2 = true := by
          rw [List.contains_iff_mem, List.mem_map]; exact ⟨x, hx, rfl⟩
        simp only [hc, if_true]
      have h3 : s.zipIdx.map (fun x => flag (changeT s.zipIdx) (changeG s.zipIdx) x.1) =
          (s.zipIdx.map Prod.fst).map (flag (changeT s.zipIdx) (changeG s.zipIdx)) := by
        rw [List.map_map]; rfl
      rw [this, h3, hfst]
    rw [resolve_take_best s hs2, hsel', hcand', hdup, happly, hT, hG, hret]
    simp [s, List.map_map, Function.comp_def]

/-! ### non-vacuity -/

-- the tie witness: three records in, the two retained ones resolved on their own come out alike
example : (resolve .take_best witnessTie).map retained =
    resolve .take_best [witnessTie[1], witnessTie[2]] := by decide

-- the single winner: the retained record alone is returned as it is
example : (resolve .take_best witnessSingle).map retained = resolve .take_best [witnessSingle[0]] := by decide

end IsoVerif.Props.C08Diff
