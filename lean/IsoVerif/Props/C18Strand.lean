/-
C18 (second half) — strands are pure functions of the reference sequence (and of the annotation seed):
the splice-site strand of an intron, the strand vote of `StrandDetector` (memo independent of the query history),
the read strand of `get_assignment_strand`, and the strand of a novel spliced transcript in `construct_fl_isoforms`
(agrees with the splice sites, else with the polyA/polyT evidence, and never contradicts all available evidence).
-/
import IsoVerif.Model.Canonical
import IsoVerif.Lemmas.Canonical
import IsoVerif.Props.C18

namespace IsoVerif.Props.C18
open IsoVerif.Gen IsoVerif.Model IsoVerif.Model.C18 IsoVerif.Lemmas.C18

/-! ### splice-site strand of one intron -/

/-- `get_intron_strand`: `+` iff the (case-folded) pair is in the forward table, `-` iff in the reverse table,
    `.` iff in neither -/
theorem intron_strand_spec (it : Iv) (seq : Seq) (start : Int) :
    (getIntronStrand it seq start = .plus ↔ upperSite (siteRaw seq start it) ∈ fwdSites) ∧
    (getIntronStrand it seq start = .minus ↔ upperSite (siteRaw seq start it) ∈ revSites) ∧
    (getIntronStrand it seq start = .dot ↔
      upperSite (siteRaw seq start it) ∉ fwdSites ∧ upperSite (siteRaw seq start it) ∉ revSites) := by
  have hd := tables_disjoint (upperSite (siteRaw seq start it))
  simp only [isFwd, isRev, List.contains_iff_mem] at hd
  unfold getIntronStrand
  simp only [isFwd, isRev]
  by_cases hf : upperSite (siteRaw seq start it) ∈ fwdSites <;>
    by_cases hr : upperSite (siteRaw seq start it) ∈ revSites <;>
    simp_all

/-- the splice-site strand and the Canonical flag read the sequence in the same way: an in-range intron has site
    strand `+` (`-`) exactly when it is canonical on `+` (`-`) in the sense of `CanonicalOn` -/
theorem site_strand_iff_canonical (it : Iv) (seq : Seq) (h1 : 1 ≤ it.1) (h2 : 1 < it.2) :
    (getIntronStrand it seq = .plus ↔ CanonicalOn ⟨seq, 1⟩ it .plus) ∧
    (getIntronStrand it seq = .minus ↔ CanonicalOn ⟨seq, 1⟩ it .minus) := by
  have hp := canonCompute_iff ⟨seq, 1⟩ it .plus h1 h2
  have hm := canonCompute_iff ⟨seq, 1⟩ it .minus h1 h2
  have hs := intron_strand_spec it seq 1
  simp only [canonCompute, isFwd, isRev, List.contains_iff_mem, if_true, reduceCtorEq, if_false] at hp hm
  exact ⟨hs.1.trans hp, hs.2.1.trans hm⟩

/-! ### the detector's memo: keyed by intron, value independent of the query history -/

inductive DetQuery where
  | count (introns : List Iv)
  | clean (introns : List Iv)
  | strand (introns : List Iv) (hasPolyA hasPolyT : Bool)

inductive DetAnswer where
  | counts (f r : Nat)
  | strand (s : Strand)
  deriving DecidableEq

def runDetQuery (seq : Seq) (q : DetQuery) (σ : StrandDict) : DetAnswer × StrandDict :=
  match q with
  | .count introns => let r := countCanonicalSites seq introns σ; (.counts r.1.1 r.1.2, r.2)
  | .clean introns => let r := getCleanStrand seq introns σ; (.strand r.1, r.2)
  | .strand introns pa pt => let r := detGetStrand seq introns pa pt σ; (.strand r.1, r.2)

def runDet (seq : Seq) : List DetQuery → StrandDict → List DetAnswer × StrandDict
  | [], σ => ([], σ)
  | q :: qs, σ =>
    let r := runDetQuery seq q σ
    let rs := runDet seq qs r.2
    (r.1 :: rs.1, rs.2)

/-- the answer as a function of the per-intron strand assignment `e` alone -/
def pureDetAnswer (e : Iv → Strand) (q : DetQuery) : DetAnswer :=
  let f := fun (l : List Iv) => l.countP fun it => decide (e it = .plus)
  let r := fun (l : List Iv) => l.countP fun it => decide (e it = .minus)
  match q with
  | .count introns => .counts (f introns) (r introns)
  | .clean introns => .strand (cleanOf (f introns) (r introns))
  | .strand introns pa pt => .strand (voteOf (f introns) (r introns) pa pt)

theorem runDetQuery_spec (seq : Seq) (q : DetQuery) (σ : StrandDict) :
    (runDetQuery seq q σ).1 = pureDetAnswer (eff σ seq) q ∧
    ∀ it, eff (runDetQuery seq q σ).2 seq it = eff σ seq it := by
  cases q with
  | count introns =>
    have := count_spec seq introns σ
    simp only [runDetQuery, pureDetAnswer]
    exact ⟨by rw [this.1]; rfl, this.2⟩
  | clean introns =>
    have := count_spec seq introns σ
    simp only [runDetQuery, pureDetAnswer, getCleanStrand]
    exact ⟨by rw [this.1]; rfl, this.2⟩
  | strand introns pa pt =>
    have := count_spec seq introns σ
    simp only [runDetQuery, pureDetAnswer, detGetStrand]
    exact ⟨by rw [this.1]; rfl, this.2⟩

/-- **strand_detector_memo_pure**: for every detector state `σ` (any annotation seed) and every history of
    count / clean-strand / strand queries, each answer is the function of the per-intron strands `eff σ` alone, and
    the per-intron strands are the same after the history as before it (the memo only stores what would be recomputed) -/
theorem strand_detector_memo_pure (seq : Seq) :
    ∀ (qs : List DetQuery) (σ : StrandDict),
      (runDet seq qs σ).1 = qs.map (pureDetAnswer (eff σ seq)) ∧
      ∀ it, eff (runDet seq qs σ).2 seq it = eff σ seq it := by
  intro qs
  induction qs with
  | nil => intro σ; exact ⟨rfl, fun _ => rfl⟩
  | cons q rest ih =>
    intro σ
    have hq := runDetQuery_spec seq q σ
    have hr := ih (runDetQuery seq q σ).2
    have hfun : eff (runDetQuery seq q σ).2 seq = eff σ seq := funext hq.2
    simp only [runDet, List.map_cons]
    refine ⟨by rw [hq.1, hr.1, hfun], fun it => by rw [hr.2 it, hq.2 it]⟩

/-- without an annotation seed (the detector of `AlignmentCollector`) every answer of every history is a function of
    the reference sequence alone -/
theorem strand_detector_memo_pure_unseeded (seq : Seq) (qs : List DetQuery) :
    (runDet seq qs []).1 = qs.map (pureDetAnswer (fun it => getIntronStrand it seq)) := by
  have := (strand_detector_memo_pure seq qs []).1
  rw [this]
  have : eff [] seq = fun it => getIntronStrand it seq := funext (eff_nil seq)
  rw [this]

/-- `set_strand`: an explicit (annotation) strand replaces the intron's strand, `None` stores the site strand -/
theorem set_strand_spec (seq : Seq) (σ : StrandDict) (it it' : Iv) (st : Option Strand) :
    eff (setStrand seq σ it st) seq it' =
      if it' = it then st.getD (getIntronStrand it seq) else eff σ seq it' := by
  cases st <;> simp [setStrand, eff_cons]

/-! ### the vote -/

/-- **strand_agrees** (detector level): the strand is `+` iff the forward sites outnumber the reverse ones or there
    is a tie and only a polyA tail; `-` symmetrically; `.` iff a tie and the tails do not decide -/
theorem strand_agrees (seq : Seq) (introns : List Iv) (pa pt : Bool) (σ : StrandDict) :
    let f := nPlus σ seq introns
    let r := nMinus σ seq introns
    let s := (detGetStrand seq introns pa pt σ).1
    (s = .plus ↔ r < f ∨ (f = r ∧ pa = true ∧ pt = false)) ∧
    (s = .minus ↔ f < r ∨ (f = r ∧ pt = true ∧ pa = false)) ∧
    (s = .dot ↔ f = r ∧ pa = pt) := by
  have hc := (count_spec seq introns σ).1
  simp only [detGetStrand, hc, voteOf]
  by_cases h1 : nPlus σ seq introns = nMinus σ seq introns
  · cases pa <;> cases pt <;> simp [h1]
  · by_cases h2 : nMinus σ seq introns < nPlus σ seq introns
    · simp [h1, h2]; omega
    · simp [h1, h2]; omega

/-- **clean_strand**: `+` iff some intron is a `+` intron and none is a `-` intron (all informative sites agree);
    `-` symmetrically; `.` otherwise -/
theorem clean_strand (seq : Seq) (introns : List Iv) (σ : StrandDict) :
    let s := (getCleanStrand seq introns σ).1
    (s = .plus ↔ (∃ it ∈ introns, eff σ seq it = .plus) ∧ ∀ it ∈ introns, eff σ seq it ≠ .minus) ∧
    (s = .minus ↔ (∃ it ∈ introns, eff σ seq it = .minus) ∧ ∀ it ∈ introns, eff σ seq it ≠ .plus) ∧
    (s = .dot ↔ ¬ ((∃ it ∈ introns, eff σ seq it = .plus) ∧ ∀ it ∈ introns, eff σ seq it ≠ .minus) ∧
               ¬ ((∃ it ∈ introns, eff σ seq it = .minus) ∧ ∀ it ∈ introns, eff σ seq it ≠ .plus)) := by
  have hc := (count_spec seq introns σ).1
  have pos_p : 0 < nPlus σ seq introns ↔ ∃ it ∈ introns, eff σ seq it = .plus := by
    simp [nPlus, List.countP_pos_iff]
  have pos_m : 0 < nMinus σ seq introns ↔ ∃ it ∈ introns, eff σ seq it = .minus := by
    simp [nMinus, List.countP_pos_iff]
  have zero_p : nPlus σ seq introns = 0 ↔ ∀ it ∈ introns, eff σ seq it ≠ .plus := by
    simp [nPlus, List.countP_eq_zero]
  have zero_m : nMinus σ seq introns = 0 ↔ ∀ it ∈ introns, eff σ seq it ≠ .minus := by
    simp [nMinus, List.countP_eq_zero]
  simp only [getCleanStrand, hc, cleanOf, ← pos_p, ← pos_m, ← zero_p, ← zero_m]
  generalize nPlus σ seq introns = a
  generalize nMinus σ seq introns = b
  rcases Nat.eq_zero_or_pos a with h1 | h1 <;> rcases Nat.eq_zero_or_pos b with h2 | h2
  · simp [h1, h2]
  · have h4 : ¬ b = 0 := by omega
    simp [h1, h2, h4]
  · have h3 : ¬ a = 0 := by omega
    simp [h1, h2, h3]
  · have h3 : ¬ a = 0 := by omega
    have h4 : ¬ b = 0 := by omega
    simp [h1, h2, h3, h4]

/-! ### read strand -/

theorem unique_match_strand_spec (ra : ReadStrandInfo) (ms : Strand) :
    ra.uniqueMatchStrand = some ms ↔
      (∃ rest, ra.matchStrands = ms :: rest) ∧ (ra.atype = "unique" ∨ ra.atype = "unique_minor_difference") := by
  unfold ReadStrandInfo.uniqueMatchStrand
  cases ra.matchStrands with
  | nil => simp
  | cons m rest =>
    by_cases hu : ra.atype = "unique" ∨ ra.atype = "unique_minor_difference"
    · simp [hu]
    · simp [hu]

/-- `get_assignment_strand`: the strand of the matched isoform for unique (minor-difference) assignments; otherwise
    the tails alone for a mono-exonic read and the vote over the corrected introns for a spliced one; the
    detector's per-intron strands are unchanged by the call -/
theorem assignment_strand_spec (seq : Seq) (ra : ReadStrandInfo) (σ : StrandDict) :
    (∀ ms, ra.uniqueMatchStrand = some ms → (getAssignmentStrand seq ra σ).1 = ms) ∧
    (ra.uniqueMatchStrand = none → ra.nExons = 1 →
      (getAssignmentStrand seq ra σ).1 = voteOf 0 0 ra.hasPolyA ra.hasPolyT) ∧
    (ra.uniqueMatchStrand = none → ra.nExons ≠ 1 →
      (getAssignmentStrand seq ra σ).1 =
        voteOf (nPlus σ seq ra.correctedIntrons) (nMinus σ seq ra.correctedIntrons) ra.hasPolyA ra.hasPolyT) ∧
    ∀ it, eff (getAssignmentStrand seq ra σ).2 seq it = eff σ seq it := by
  have hc := count_spec seq ra.correctedIntrons σ
  unfold getAssignmentStrand
  cases hm : ra.uniqueMatchStrand with
  | some ms =>
    refine ⟨fun ms' h => (by cases h; rfl), fun h => (by cases h), fun h => (by cases h), fun _ => rfl⟩
  | none =>
    refine ⟨fun ms' h => (by cases h), fun _ hn => ?_, fun _ hn => ?_, fun it => ?_⟩
    · simp [strandViaSites, hn, voteOf]
    · simp [strandViaSites, hn, detGetStrand, hc.1]
    · by_cases hn : ra.nExons = 1
      · simp [strandViaSites, hn]
      · simp only [strandViaSites, hn, if_false, detGetStrand]; exact hc.2 it

/-! ### strand of a novel spliced transcript -/

/-- splice-site / tail evidence for a strand -/
def EvPlus (σ : StrandDict) (seq : Seq) (path : List Iv) (pa : Bool) : Prop :=
  (∃ it ∈ path, eff σ seq it = .plus) ∨ pa = true
def EvMinus (σ : StrandDict) (seq : Seq) (path : List Iv) (pt : Bool) : Prop :=
  (∃ it ∈ path, eff σ seq it = .minus) ∨ pt = true

/-- what `novelModelStrand` returns when it reports a model: the vote if it is decisive, otherwise the strand of the
    selected reference gene, otherwise `.` -/
theorem novel_strand_cases (seq : Seq) (prm : NovelParams) (count : Int) (range : Iv) (path : List Iv)
    (pa pt : Bool) (cands : List (String × Strand)) (σ : StrandDict) (s : Strand)
    (h : (novelModelStrand seq prm count range path pa pt cands σ).1 = some s) :
    let v := voteOf (nPlus σ seq path) (nMinus σ seq path) pa pt
    let c := cleanOf (nPlus σ seq path) (nMinus σ seq path)
    ((v ≠ .dot ∧ s = v) ∨ (v = .dot ∧ (s = .dot ∨ ∃ g ∈ cands, s = g.2))) ∧
    (prm.level = .only_canonical → c ≠ .dot) ∧ (prm.level = .only_stranded → v ≠ .dot) ∧
    prm.minNovelCount ≤ count ∧ path ≠ [] := by
  have hc := count_spec seq path σ
  have hc2 := count_spec seq path (detGetStrand seq path pa pt σ).2
  have hσ : ∀ it, eff (detGetStrand seq path pa pt σ).2 seq it = eff σ seq it := by
    simpa [detGetStrand] using hc.2
  have hn := nPlus_congr hσ path
  have hv : (detGetStrand seq path pa pt σ).1 = voteOf (nPlus σ seq path) (nMinus σ seq path) pa pt := by
    simp [detGetStrand, hc.1]
  have hcl : (getCleanStrand seq path (detGetStrand seq path pa pt σ).2).1 =
      cleanOf (nPlus σ seq path) (nMinus σ seq path) := by
    simp [getCleanStrand, hc2.1, hn.1, hn.2]
  unfold novelModelStrand at h
  by_cases hp : path.isEmpty = true
  · simp [hp] at h
  · simp only [hp, Bool.false_eq_true, if_false, hv, hcl] at h
    have hpne : path ≠ [] := by
      intro e; subst e; simp at hp
    split at h
    · simp at h
    · split at h
      · simp at h
      · rename_i hcount
        split at h
        · simp at h
        · rename_i hmono
          split at h
          · simp at h
          · rename_i hlevel
            refine ⟨?_, ?_, ?_, by omega, hpne⟩
            · split at h
              · rename_i hsel
                simp only [Option.some.injEq] at h
                by_cases hd : voteOf (nPlus σ seq path) (nMinus σ seq path) pa pt = .dot
                · exact Or.inr ⟨hd, Or.inl (by rw [← h, hd])⟩
                · exact Or.inl ⟨hd, h.symm⟩
              · rename_i g hsel
                simp only [Option.some.injEq] at h
                by_cases hd : voteOf (nPlus σ seq path) (nMinus σ seq path) pa pt = .dot
                · simp only [hd, if_true] at h
                  exact Or.inr ⟨hd, Or.inr ⟨g, List.mem_of_find?_eq_some hsel, h.symm⟩⟩
                · simp only [hd, if_false] at h
                  exact Or.inl ⟨hd, h.symm⟩
            · intro hl hcd; exact hlevel (Or.inl ⟨hl, hcd⟩)
            · intro hl hvd; exact hlevel (Or.inr ⟨hl, hvd⟩)

/-- **strand_agrees** (novel transcript): the reported strand follows the majority of the splice sites; on a tie it
    follows the tail when exactly one kind of tail is present -/
theorem novel_strand_agrees (seq : Seq) (prm : NovelParams) (count : Int) (range : Iv) (path : List Iv)
    (pa pt : Bool) (cands : List (String × Strand)) (σ : StrandDict) (s : Strand)
    (h : (novelModelStrand seq prm count range path pa pt cands σ).1 = some s) :
    (nMinus σ seq path < nPlus σ seq path → s = .plus) ∧
    (nPlus σ seq path < nMinus σ seq path → s = .minus) ∧
    (nPlus σ seq path = nMinus σ seq path → pa = true → pt = false → s = .plus) ∧
    (nPlus σ seq path = nMinus σ seq path → pt = true → pa = false → s = .minus) := by
  have hcases := (novel_strand_cases seq prm count range path pa pt cands σ s h).1
  simp only [voteOf] at hcases
  refine ⟨fun hlt => ?_, fun hlt => ?_, fun he ha ht => ?_, fun he ht ha => ?_⟩
  · have hne : ¬ nPlus σ seq path = nMinus σ seq path := by omega
    simp [hne, hlt] at hcases; exact hcases
  · have hne : ¬ nPlus σ seq path = nMinus σ seq path := by omega
    have hnl : ¬ nMinus σ seq path < nPlus σ seq path := by omega
    simp [hne, hnl] at hcases; exact hcases
  · simp [he, ha, ht] at hcases; exact hcases
  · simp [he, ha, ht] at hcases; exact hcases

/-- **never_contradicts_all_evidence**: a novel transcript is reported on `+` only if a splice site or a polyA tail
    speaks for `+`, or nothing at all speaks for `-` and the strand is that of an overlapping reference gene;
    symmetrically for `-`.  In particular the strand is never the opposite of everything observed. -/
theorem never_contradicts_all_evidence (seq : Seq) (prm : NovelParams) (count : Int) (range : Iv) (path : List Iv)
    (pa pt : Bool) (cands : List (String × Strand)) (σ : StrandDict) (s : Strand)
    (h : (novelModelStrand seq prm count range path pa pt cands σ).1 = some s) :
    (s = .plus → EvPlus σ seq path pa ∨ (¬ EvMinus σ seq path pt ∧ ∃ g ∈ cands, g.2 = .plus)) ∧
    (s = .minus → EvMinus σ seq path pt ∨ (¬ EvPlus σ seq path pa ∧ ∃ g ∈ cands, g.2 = .minus)) ∧
    (s = .plus → ¬ (EvMinus σ seq path pt ∧ ¬ EvPlus σ seq path pa)) ∧
    (s = .minus → ¬ (EvPlus σ seq path pa ∧ ¬ EvMinus σ seq path pt)) := by
  have hcases := (novel_strand_cases seq prm count range path pa pt cands σ s h).1
  have pos_p : 0 < nPlus σ seq path ↔ ∃ it ∈ path, eff σ seq it = .plus := by
    simp [nPlus, List.countP_pos_iff]
  have pos_m : 0 < nMinus σ seq path ↔ ∃ it ∈ path, eff σ seq it = .minus := by
    simp [nMinus, List.countP_pos_iff]
  have main : (s = .plus → EvPlus σ seq path pa ∨ (¬ EvMinus σ seq path pt ∧ ∃ g ∈ cands, g.2 = .plus)) ∧
      (s = .minus → EvMinus σ seq path pt ∨ (¬ EvPlus σ seq path pa ∧ ∃ g ∈ cands, g.2 = .minus)) := by
    unfold EvPlus EvMinus
    rw [← pos_p, ← pos_m]
    simp only [voteOf] at hcases
    rcases hcases with ⟨hv, hs⟩ | ⟨hv, hs⟩
    · -- decisive vote
      constructor
      · intro hsp
        rw [hsp] at hs
        by_cases he : nPlus σ seq path = nMinus σ seq path
        · cases pa <;> cases pt <;> simp [he] at hs hv ⊢
        · by_cases hl : nMinus σ seq path < nPlus σ seq path
          · left; left; omega
          · simp [he, hl] at hs
      · intro hsm
        rw [hsm] at hs
        by_cases he : nPlus σ seq path = nMinus σ seq path
        · cases pa <;> cases pt <;> simp [he] at hs hv ⊢
        · by_cases hl : nMinus σ seq path < nPlus σ seq path
          · simp [he, hl] at hs
          · left; left; omega
    · -- tie: strand of the reference gene (or '.')
      have htie : nPlus σ seq path = nMinus σ seq path ∧ pa = pt := by
        by_cases he : nPlus σ seq path = nMinus σ seq path
        · refine ⟨he, ?_⟩
          cases pa <;> cases pt <;> simp [he] at hv ⊢
        · by_cases hl : nMinus σ seq path < nPlus σ seq path <;> simp [he, hl] at hv
      obtain ⟨he, hpp⟩ := htie
      constructor
      · intro hsp
        rcases hs with hs | ⟨g, hg, hs⟩
        · rw [hsp] at hs; cases hs
        · by_cases hz : 0 < nPlus σ seq path
          · exact Or.inl (Or.inl hz)
          · cases hpa : pa with
            | true => exact Or.inl (Or.inr rfl)
            | false =>
              right
              refine ⟨?_, g, hg, by rw [← hs, hsp]⟩
              rintro (hm | hm)
              · omega
              · rw [← hpp, hpa] at hm; cases hm
      · intro hsm
        rcases hs with hs | ⟨g, hg, hs⟩
        · rw [hsm] at hs; cases hs
        · by_cases hz : 0 < nMinus σ seq path
          · exact Or.inl (Or.inl hz)
          · cases hpt : pt with
            | true => exact Or.inl (Or.inr rfl)
            | false =>
              right
              refine ⟨?_, g, hg, by rw [← hs, hsm]⟩
              rintro (hm | hm)
              · omega
              · rw [hpp, hpt] at hm; cases hm
  refine ⟨main.1, main.2, fun hsp ⟨hm, hnp⟩ => ?_, fun hsm ⟨hp, hnm⟩ => ?_⟩
  · rcases main.1 hsp with h1 | ⟨h1, _⟩
    · exact hnp h1
    · exact h1 hm
  · rcases main.2 hsm with h1 | ⟨h1, _⟩
    · exact hnm h1
    · exact h1 hp

/-- the reporting levels: under `only_canonical` a reported novel transcript has all its informative sites on one
    strand and carries exactly that strand; under `only_stranded` it carries a decisive vote -/
theorem report_levels (seq : Seq) (prm : NovelParams) (count : Int) (range : Iv) (path : List Iv)
    (pa pt : Bool) (cands : List (String × Strand)) (σ : StrandDict) (s : Strand)
    (h : (novelModelStrand seq prm count range path pa pt cands σ).1 = some s) :
    (prm.level = .only_canonical →
      (getCleanStrand seq path σ).1 ≠ .dot ∧ s = (getCleanStrand seq path σ).1) ∧
    (prm.level = .only_stranded → s ≠ .dot ∧ s = (detGetStrand seq path pa pt σ).1) := by
  have hall := novel_strand_cases seq prm count range path pa pt cands σ s h
  have hc := (count_spec seq path σ).1
  constructor
  · intro hl
    have hcl := hall.2.1 hl
    have hclean : (getCleanStrand seq path σ).1 = cleanOf (nPlus σ seq path) (nMinus σ seq path) := by
      simp [getCleanStrand, hc]
    rw [hclean]
    refine ⟨hcl, ?_⟩
    have hag := novel_strand_agrees seq prm count range path pa pt cands σ s h
    simp only [cleanOf] at hcl ⊢
    by_cases h1 : nPlus σ seq path = 0 ∧ nMinus σ seq path > 0
    · rw [if_pos h1]; exact hag.2.1 (by omega)
    · by_cases h2 : nPlus σ seq path > 0 ∧ nMinus σ seq path = 0
      · rw [if_neg h1, if_pos h2]; exact hag.1 (by omega)
      · rw [if_neg h1, if_neg h2] at hcl; exact absurd rfl hcl
  · intro hl
    have hvd := hall.2.2.1 hl
    have hv : (detGetStrand seq path pa pt σ).1 = voteOf (nPlus σ seq path) (nMinus σ seq path) pa pt := by
      simp [detGetStrand, hc]
    rw [hv]
    rcases hall.1 with ⟨_, hs⟩ | ⟨hd, _⟩
    · exact ⟨by rw [hs]; exact hvd, hs⟩
    · exact absurd hd hvd

/-! ### `common.get_strand` (not called by the pipeline; kept because the pinned tests exercise it) -/

theorem commonCountLoop_spec (s : Seq) (start : Int) :
    ∀ (introns : List Iv) (f r : Nat),
      commonCountLoop s start introns f r =
        (f + introns.countP (fun it => isFwd (siteRaw s start it)),
         r + introns.countP (fun it => isRev (siteRaw s start it))) := by
  intro introns
  induction introns with
  | nil => intro f r; simp [commonCountLoop]
  | cons it rest ih =>
    intro f r
    simp only [commonCountLoop, ih, List.countP_cons]
    by_cases h1 : isFwd (siteRaw s start it) = true <;> by_cases h2 : isRev (siteRaw s start it) = true <;>
      simp [h1, h2] <;> omega

/-- `.` for no introns; otherwise the majority of forward versus reverse pairs, read *without* case folding -/
theorem common_get_strand_spec (introns : List Iv) (s : Seq) (start : Int) :
    let f := introns.countP (fun it => isFwd (siteRaw s start it))
    let r := introns.countP (fun it => isRev (siteRaw s start it))
    commonGetStrand introns s start =
      if introns = [] then .dot else if f = r then .dot else if r < f then .plus else .minus := by
  unfold commonGetStrand
  rw [commonCountLoop_spec]
  cases introns with
  | nil => simp
  | cons a l => simp

/-- unlike `get_intron_strand`, `common.get_strand` is case sensitive (dead code in the pipeline) -/
theorem common_get_strand_case_witness :
    commonGetStrand [(5, 14)] (witnessSeq.map Char.toLower) = .dot ∧ commonGetStrand [(5, 14)] witnessSeq = .plus ∧
    getIntronStrand (5, 14) (witnessSeq.map Char.toLower) = .plus := by
  decide

/-! ### non-vacuity -/

def revSeq : Seq := "AAAACTCCCCCCACTTTT".toList      -- intron (5,14) is CT..AC : a `-` intron

example : getIntronStrand (5, 14) witnessSeq = .plus ∧ getIntronStrand (5, 14) revSeq = .minus ∧
    getIntronStrand (6, 14) witnessSeq = .dot := by decide

-- a seeded detector: the annotation says `-` for a GT-AG intron; the vote follows the seed
example : (detGetStrand witnessSeq [(5, 14)] false false (setStrand witnessSeq [] (5, 14) (some .minus))).1 = .minus ∧
    (detGetStrand witnessSeq [(5, 14)] false false []).1 = .plus ∧
    (detGetStrand witnessSeq [(6, 14)] true false []).1 = .plus ∧
    (getCleanStrand witnessSeq [(5, 14), (6, 14)] []).1 = .plus := by decide

-- a reported novel model on every level, and one taking the gene's strand on a tie
example :
    (novelModelStrand witnessSeq ⟨1, false, .only_canonical⟩ 2 (1, 18) [(5, 14)] false false [] []).1 = some .plus ∧
    (novelModelStrand witnessSeq ⟨1, false, .only_stranded⟩ 2 (1, 18) [(5, 14)] false false [] []).1 = some .plus ∧
    (novelModelStrand witnessSeq ⟨1, false, .all⟩ 2 (1, 30) [(6, 10), (12, 20)] false false [("g", .minus)] []).1
      = some .minus ∧
    (novelModelStrand witnessSeq ⟨3, false, .all⟩ 2 (1, 18) [(5, 14)] false false [] []).1 = none := by
  decide

example : (getAssignmentStrand witnessSeq ⟨[.minus], "unique", -1, -1, -1, -1, 2, [(5, 14)]⟩ []).1 = .minus ∧
    (getAssignmentStrand witnessSeq ⟨[.minus], "ambiguous", -1, -1, -1, -1, 2, [(5, 14)]⟩ []).1 = .plus ∧
    (getAssignmentStrand witnessSeq ⟨[], "intergenic", -1, -1, 7, -1, 1, []⟩ []).1 = .minus := by
  decide

end IsoVerif.Props.C18
