/-
C16 (part 8) — `concat_gapless_blocks` (src/common.py) on the blocks pysam's `get_blocks()` yields.
The function is used only by the stand-alone script `src/10x_profiles.py` (not by the IsoQuant pipeline); it is
characterised here for every CIGAR, and the ways in which it differs from the exons of `get_read_blocks` are kept
as witnesses.
-/
import IsoVerif.Model.TailSpec
import IsoVerif.Lemmas.ConcatSpec

namespace IsoVerif.Props.C16Concat
open IsoVerif.Gen IsoVerif.Model IsoVerif.Model.C16 IsoVerif.Lemmas.C16

/-- **concat_gapless_spec** — for every CIGAR (all nine kinds, any lengths) and every `reference_start`:
    `concat_gapless_blocks(get_blocks(), cigartuples)` is, for the CIGAR cut after its last aligned operation and
    split at `N` only, one interval per run that holds an aligned operation:
    `[first aligned base − pending deletion, reference_start + reference bases up to the end of the run)` (0-based,
    half-open), where the pending deletion is the length of the last `D` seen since the previous block was closed. -/
theorem concat_gapless_spec (s : Int) (ops : List CigarOp) :
    concatGaplessBlocks (alignedBlocks s ops) ops = concatGaplessSpec s ops := by
  have h := concat_fold s ops [] [] [] (by
    simp only [List.append_nil]
    exact ⟨fun _ => rfl, fun _ => Or.inl rfl⟩)
  have h0 : gaplessOf s (([] : List CigarOp), ([] : List CigarOp)) = none := rfl
  have hd : absDel [] [] = 0 := by decide
  rw [h0, hd] at h
  simp only [refLen_nil, Int.add_zero, List.nil_append] at h
  unfold concatGaplessBlocks alignedBlocks concatGaplessSpec cutsN
  rw [← h]
  unfold flush
  cases concatGaplessAux none 0 [] ops (alignedBlocksAux s ops) with
  | mk res cur => cases cur <;> simp

/-- `truncAligned` without recursion: the CIGAR splits into `truncAligned ops` and a rest without aligned
    operation, and `truncAligned ops` is empty or ends with an aligned operation -/
theorem truncAligned_spec (ops : List CigarOp) :
    ∃ post, ops = truncAligned ops ++ post ∧ hasAligned post = false ∧
      (truncAligned ops = [] ∨ ∃ init o, truncAligned ops = init ++ [o] ∧ isAligned o.1 = true) := by
  induction ops with
  | nil => exact ⟨[], rfl, rfl, Or.inl rfl⟩
  | cons op rest ih =>
    cases hA : hasAligned (op :: rest) with
    | false => exact ⟨op :: rest, by simp [truncAligned, hA], hA, Or.inl (by simp [truncAligned, hA])⟩
    | true =>
      obtain ⟨post, h1, h2, h3⟩ := ih
      refine ⟨post, ?_, h2, Or.inr ?_⟩
      · simp only [truncAligned, hA, if_true, List.cons_append]; rw [← h1]
      · simp only [truncAligned, hA, if_true]
        rcases h3 with h3 | ⟨init, o, h3, h4⟩
        · refine ⟨[], op, by rw [h3]; rfl, ?_⟩
          have hr : hasAligned rest = false := by
            rw [h1, h3, List.nil_append]; exact h2
          rw [hasAligned_cons, hr, Bool.or_false] at hA
          exact hA
        · exact ⟨op :: init, o, by rw [h3]; rfl, h4⟩

/-- agreement with the exons on an aligner-style CIGAR (`10S 50M 2D 30M 100N 40M 5S` at 1000):
    the blocks are the exons `(1001,1082), (1183,1222)` in 0-based half-open form -/
example :
    let ops : List CigarOp := [(.soft_clipping, 10), (.«match», 50), (.deletion, 2), (.«match», 30), (.skipped, 100),
      (.«match», 40), (.soft_clipping, 5)]
    concatGaplessBlocks (alignedBlocks 1000 ops) ops = [(1000, 1082), (1182, 1222)] ∧
    (getReadBlocks 1000 ops).refBlocks = [(1001, 1082), (1183, 1222)] := by decide

/-- **concat_gapless_not_exons_witness** — the three deviations from the exons, model = code:
    (a) only the last of several leading `D` is kept (`2D 3D 5M`: block starts 3 before the match, exon 5 before);
    (b) a trailing `D` of the last run is dropped (`5M 2D`), and a `D` of an indel-only run leaks into the next block
        (`5M 3N 2D 4N 6M`: second block starts inside the intron);
    (c) a soft clip does not end a run (`5M 2S 3M` is one block, two exons) -/
theorem concat_gapless_not_exons_witness :
    (concatGaplessBlocks (alignedBlocks 100 [(.deletion, 2), (.deletion, 3), (.«match», 5)])
        [(.deletion, 2), (.deletion, 3), (.«match», 5)] = [(102, 110)] ∧
      (getReadBlocks 100 [(.deletion, 2), (.deletion, 3), (.«match», 5)]).refBlocks = [(101, 110)]) ∧
    (concatGaplessBlocks (alignedBlocks 100 [(.«match», 5), (.deletion, 2)]) [(.«match», 5), (.deletion, 2)] = [(100, 105)] ∧
      (getReadBlocks 100 [(.«match», 5), (.deletion, 2)]).refBlocks = [(101, 107)]) ∧
    (concatGaplessBlocks (alignedBlocks 100 [(.«match», 5), (.skipped, 3), (.deletion, 2), (.skipped, 4), (.«match», 6)])
        [(.«match», 5), (.skipped, 3), (.deletion, 2), (.skipped, 4), (.«match», 6)] = [(100, 105), (112, 120)] ∧
      (getReadBlocks 100 [(.«match», 5), (.skipped, 3), (.deletion, 2), (.skipped, 4), (.«match», 6)]).refBlocks
        = [(101, 105), (115, 120)]) ∧
    (concatGaplessBlocks (alignedBlocks 100 [(.«match», 5), (.soft_clipping, 2), (.«match», 3)])
        [(.«match», 5), (.soft_clipping, 2), (.«match», 3)] = [(100, 108)] ∧
      (getReadBlocks 100 [(.«match», 5), (.soft_clipping, 2), (.«match», 3)]).refBlocks = [(101, 105), (106, 108)]) := by
  decide

end IsoVerif.Props.C16Concat
