/-
C15 — stream framing: the `<prefix>.save_<chr>` files written by TmpFileAssignmentPrinter and read by the two
loaders (full: NormalTmpFileAssignmentLoader under ReadAssignmentLoader; abridged: QuickTmpFileAssignmentLoader under
BasicReadAssignmentLoader), the `<prefix>.save_multimappers_<chr>` files and the `<prefix>.save_info` file.
All theorems quantify over every sequence of groups / lists (no bound on their number or size) and over
whatever bytes follow the stream.
-/
import IsoVerif.Lemmas.SerialStream
import IsoVerif.Props.C15Objects

namespace IsoVerif.Props.C15Stream
open IsoVerif.Gen IsoVerif.Model IsoVerif.Model.Serial IsoVerif.Lemmas.Serial IsoVerif.Props.C15Objects

/-! ### `.save` files -/

/-- **stream_roundtrip**: any sequence of gene-info records each followed by any number of read records, written by
    the printer (terminator included) and read by the full loader, comes back group by group, record by record -/
theorem stream_roundtrip (gs : List (Group ReadAssignment)) (bs rest : Bytes)
    (henc : writeStream (ungroup gs) = some bs) (hdom : ∀ g ∈ gs, ∀ r ∈ g.2, RADom r) :
    loadStreamFull.run (bs ++ rest) = some (gs.map (fun g => (g.1, g.2.map quantRA)), rest) :=
  loadStream_writes (fun r bs rest hr h => read_assignment_decode_encode r bs rest h hr) gs bs rest hdom henc

theorem stream_roundtrip_exact (gs : List (Group ReadAssignment)) (bs rest : Bytes)
    (henc : writeStream (ungroup gs) = some bs) (hdom : ∀ g ∈ gs, ∀ r ∈ g.2, RADom r)
    (hpen : ∀ g ∈ gs, ∀ r ∈ g.2, ∀ m ∈ r.isoformMatches, PenaltyExact m.penaltyScore) :
    loadStreamFull.run (bs ++ rest) = some (gs, rest) := by
  rw [stream_roundtrip gs bs rest henc hdom]
  congr 2
  have : ∀ g ∈ gs, (fun g : Group ReadAssignment => (g.1, g.2.map quantRA)) g = id g := by
    intro g hg
    have : g.2.map quantRA = g.2.map id := List.map_congr_left (fun r hr => quantRA_exact (hpen g hg r hr))
    simp [this]
  rw [List.map_congr_left this]
  simp

/-- **quick_reader_aligned, whole file**: the abridged loader walks the same file in step with the full loader –
    same groups, same number of records per group, each record the projection of the full one, same end – for every
    file whose read records have at least one exon -/
theorem quick_stream_aligned (gs : List (Group ReadAssignment)) (bs rest : Bytes)
    (henc : writeStream (ungroup gs) = some bs) (hdom : ∀ g ∈ gs, ∀ r ∈ g.2, RADom r ∧ r.exons ≠ []) :
    loadStreamQuick.run (bs ++ rest) = some (gs.map (fun g => (g.1, g.2.map (fun r => basicOf (quantRA r)))), rest) ∧
    loadStreamFull.run (bs ++ rest) = some (gs.map (fun g => (g.1, g.2.map quantRA)), rest) :=
  ⟨loadStream_writes (P := fun r => RADom r ∧ r.exons ≠ [])
      (fun r bs rest hr h => (quick_reader_aligned r bs rest h hr.1 hr.2).1) gs bs rest hdom henc,
   stream_roundtrip gs bs rest henc (fun g hg r hr => (hdom g hg r hr).1)⟩

/-- a stream whose first record is a read record is refused (the `assert self.unpickler.is_gene_info()`), it is not
    silently attributed to some gene -/
theorem stream_read_before_gene_rejected (r : ReadAssignment) (items : List Item) (bs rest : Bytes)
    (henc : writeStream (Item.read r :: items) = some bs) : loadStreamFull.run (bs ++ rest) = none := by
  simp only [writeStream, List.map_cons, List.cons_append, seqW_cons_eq_some_iff] at henc
  obtain ⟨b1, b2, h1, _, rfl⟩ := henc
  simp only [writeItem, seqW_cons_eq_some_iff] at h1
  obtain ⟨bm, b3, hm, _, rfl⟩ := h1
  obtain ⟨rfl, hlt⟩ := writeShortInt_marker hm
  have h1 : tmp_READ_ASSIGNMENT ≠ ser_SHORT_TERMINATION_INT := by decide
  have h2 : tmp_READ_ASSIGNMENT ≠ tmp_GENE_INFO := by decide
  simp [loadStreamFull, loadStream, StateT.run_bind, List.append_assoc, readNat_toBE _ _ _ hlt, loadGroups, h1, h2]

/-! ### multimapper files -/

/-- a list length can be mistaken for the terminator only if it is 2^32 − 1 -/
theorem multimap_terminator_unambiguous {α} (l : List α) (w : α → Option Bytes) (bs rest : Bytes)
    (h : writeList l w = some bs) (hlen : l.length ≠ ser_TERMINATION_INT) :
    ∃ tl, (readNat ser_LONG_INT_BYTES).run (bs ++ rest) = some (l.length, tl) ∧ l.length ≠ ser_TERMINATION_INT := by
  simp only [writeList, seqW_cons_eq_some_iff] at h
  obtain ⟨b1, b2, h1, _, rfl⟩ := h
  exact ⟨b2 ++ rest, by rw [List.append_assoc]; exact readNat_write _ h1, hlen⟩

/-- **multimapper files**: any sequence of resolved lists (none of length 2^32 − 1) followed by TERMINATION_INT is
    read back list by list; penalties come back truncated (they are exact for records produced by either reader:
    `basicOf_penalty_exact`) -/
theorem multimap_roundtrip (ls : List (List BasicReadAssignment)) (bs rest : Bytes)
    (henc : writeMultimap ls = some bs) (hlen : ∀ l ∈ ls, l.length ≠ ser_TERMINATION_INT) :
    loadMultimap.run (bs ++ rest) = some (ls.map (List.map quantBasic), rest) := by
  simp only [writeMultimap, seqW_append_eq_some_iff, seqW_cons_eq_some_iff, seqW_nil_eq_some_iff] at henc
  obtain ⟨b, _, hb, ⟨bt, _, ht, rfl, rfl⟩, rfl⟩ := henc
  obtain ⟨_, _, rfl⟩ := intToBytes_eq_some ht
  have hfuel : ls.length < (b ++ toBE ser_LONG_INT_BYTES ser_TERMINATION_INT ++ [] ++ rest).length + 1 := by
    have : ∀ (ls : List (List BasicReadAssignment)) (b : Bytes),
        seqW (ls.map (fun l => writeList l writeBasic)) = some b → ls.length ≤ b.length := by
      intro ls
      induction ls with
      | nil => intro b _; simp
      | cons l t ih =>
        intro b h
        simp only [List.map_cons, seqW_cons_eq_some_iff] at h
        obtain ⟨b1, b2, h1, h2, rfl⟩ := h
        simp only [writeList, seqW_cons_eq_some_iff] at h1
        obtain ⟨bn, bl, hn, _, rfl⟩ := h1
        have h4 := intToBytes_length hn
        have h5 : ser_LONG_INT_BYTES = 4 := rfl
        have := ih b2 h2
        simp only [List.length_cons, List.length_append]
        omega
    have := this ls b hb
    simp only [List.length_append]; omega
  have := loadMultimapLoop_writes basic_rt ls _ b rest hfuel hlen hb
  simp only [StateT.run_bind] at this
  simp only [loadMultimap, StateT.run_bind, List.append_nil, List.append_assoc, Int.toNat_natCast] at this ⊢
  exact this

/-! ### `_info` file -/

theorem save_info_decode_encode (i : SaveInfo) (bs rest : Bytes) (henc : writeSaveInfo i = some bs) :
    readSaveInfo.run (bs ++ rest) = some (i, rest) := by
  have h := henc
  unfold writeSaveInfo at h
  unfold readSaveInfo
  refine RT.step (RT_writeInt _) trivial h ?_; clear h; intro bs h
  refine RT.step (RT_writeInt _) trivial h ?_; clear h; intro bs h
  refine RT.step (RT_writeList RT_writeString) (fun _ _ => trivial) h ?_; clear h; intro bs h
  exact done_step h rfl

/-- the file `collect_reads` writes since fix cc73ffc, seen by `load_read_info`: the three fields come back and the
    reader stops right before the unaligned count (`ub` = its four bytes) -/
theorem info_file_head (i : SaveInfo) (u : Int) (bs rest : Bytes) (henc : writeInfoFile i u = some bs) :
    ∃ hb ub, writeSaveInfo i = some hb ∧ writeInt u = some ub ∧ bs = hb ++ ub ∧
      readSaveInfo.run (bs ++ rest) = some (i, ub ++ rest) := by
  unfold writeInfoFile at henc
  obtain ⟨hb, y, h1, h2, rfl⟩ := seqW_cons_eq_some_iff.mp henc
  obtain ⟨ub, z, h3, h4, rfl⟩ := seqW_cons_eq_some_iff.mp h2
  cases seqW_nil_eq_some_iff.mp h4
  refine ⟨hb, ub, h1, h3, by simp, ?_⟩
  have := save_info_decode_encode i hb (ub ++ rest) h1
  simpa using this

/-- ... and by `load_unaligned_reads`: exactly the number that was stored, nothing left -/
theorem info_file_unaligned (i : SaveInfo) (u : Int) (bs : Bytes) (henc : writeInfoFile i u = some bs) :
    readUnaligned.run bs = some (u, []) := by
  obtain ⟨hb, ub, h1, h3, rfl, _⟩ := info_file_head i u bs [] henc
  unfold readUnaligned
  rw [StateT.run_bind, save_info_decode_encode i hb ub h1]
  have := RT_writeInt ser_LONG_INT_BYTES u ub [] trivial h3
  simpa using this

/-- an `_info` file of the older format (three fields only) gives 0 unaligned reads, no exception -/
theorem old_info_file_unaligned (i : SaveInfo) (bs : Bytes) (henc : writeSaveInfo i = some bs) :
    readUnaligned.run bs = some (0, []) := by
  unfold readUnaligned
  have := save_info_decode_encode i bs [] henc
  simp only [List.append_nil] at this
  rw [StateT.run_bind, this]
  rfl

/-! ### non-vacuity -/

def exHeader : GeneHeader := { delta := 6, geneIds := ["ENSG1", "ENSG2"], chrId := "chr1", start := 900, «end» := 2100 }
def exGroups : List (Group ReadAssignment) := [(exHeader, [exRA, exRA]), ({ exHeader with geneIds := [] }, [])]

example : (writeStream (ungroup exGroups)).isSome = true ∧
    ((writeStream (ungroup exGroups)).bind fun bs => loadStreamFull.run (bs ++ [9])) =
      some (exGroups.map (fun g => (g.1, g.2.map quantRA)), [9]) ∧
    ((writeStream (ungroup exGroups)).bind fun bs => loadStreamQuick.run (bs ++ [9])) =
      some (exGroups.map (fun g => (g.1, g.2.map basicOf)), [9]) := by
  refine ⟨?_, ?_, ?_⟩ <;> decide +kernel

def exBasic : BasicReadAssignment := basicOf exRA

example : (writeMultimap [[exBasic, exBasic], [exBasic]]).isSome = true ∧
    ((writeMultimap [[exBasic, exBasic], [exBasic]]).bind fun bs => loadMultimap.run (bs ++ [9])) =
      some ([[exBasic, exBasic], [exBasic]], [9]) ∧
    (∀ l ∈ [[exBasic, exBasic], [exBasic]], l.length ≠ ser_TERMINATION_INT) := by
  refine ⟨?_, ?_, ?_⟩ <;> decide +kernel

example : ((writeSaveInfo ⟨17, 5, ["NA", "g1"]⟩).bind fun bs => readSaveInfo.run bs) = some (⟨17, 5, ["NA", "g1"]⟩, []) := by
  decide +kernel

example : ((writeInfoFile ⟨17, 5, ["NA", "g1"]⟩ 7).bind fun bs => readUnaligned.run bs) = some (7, []) ∧
    ((writeInfoFile ⟨17, 5, ["NA", "g1"]⟩ 7).bind fun bs => readSaveInfo.run bs) = some (⟨17, 5, ["NA", "g1"]⟩, [0, 0, 0, 7]) := by
  refine ⟨?_, ?_⟩ <;> decide +kernel

end IsoVerif.Props.C15Stream
