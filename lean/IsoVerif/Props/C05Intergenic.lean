/-
C05 (growth) — which alignments of a gene-free region get a read assignment (`Model/IntergenicFilter.lean`): the documented
filter "alignments with 1 or 2 exons and MAPQ below --simple_alignments_mapq_cutoff are ignored" concerns the exons of the
ALIGNMENT; trimming a fake terminal polyA / polyT exon afterwards never removes a read.
-/
import IsoVerif.Model.IntergenicFilter

namespace IsoVerif.Props.C05Intergenic
open IsoVerif.Model IsoVerif.Model.Regions

/-- **spliced_alignment_is_reported**: an alignment with at least three exons that passes the region-independent filters
    (mapped, not supplementary, --no_secondary, --min_mapq) gets a record whatever its MAPQ, whether it is secondary, and
    however many of its exons the polyA trimming removes. -/
theorem spliced_alignment_is_reported (p : Params) (cutoff : Int) (a : IgAln) (h3 : 3 ≤ a.exons)
    (hp : passes p a.aln = true) : intergenicRecord p cutoff a = true := by
  have h0 : (a.exons != 0) = true := by simp; omega
  have h2 : decide (a.exons ≤ 2) = false := by simp; omega
  simp [intergenicRecord, keepIntergenic, hp, h0, h2]

/-- **simple_alignment_filter_exact**: for an alignment with one or two exons the record exists exactly when it passes the
    region-independent filters, is not secondary and has MAPQ >= the cut-off. -/
theorem simple_alignment_filter_exact (p : Params) (cutoff : Int) (a : IgAln) (h1 : 1 ≤ a.exons) (h2 : a.exons ≤ 2) :
    intergenicRecord p cutoff a = true ↔ (passes p a.aln = true ∧ a.aln.secondary = false ∧ cutoff ≤ a.aln.mapq) := by
  have h0 : (a.exons != 0) = true := by simp; omega
  have hd : decide (a.exons ≤ 2) = true := by simp; omega
  simp only [intergenicRecord, keepIntergenic, h0, hd, Bool.true_and, Bool.and_eq_true, Bool.not_eq_true',
    Bool.or_eq_false_iff, decide_eq_false_iff_not]
  constructor
  · rintro ⟨hp, hs, hm⟩; exact ⟨hp, hs, by omega⟩
  · rintro ⟨hp, hs, hm⟩; exact ⟨hp, hs, by omega⟩

/-- **trimming_irrelevant**: the record does not depend on what the polyA trimming leaves -/
theorem trimming_irrelevant (p : Params) (cutoff : Int) (a : IgAln) (t : Nat) :
    intergenicRecord p cutoff { a with trimmed := t } = intergenicRecord p cutoff a := rfl

/-- **intergenic_records_spec**: `process_intergenic` returns exactly the alignments of the storage with a record, each as
    often as the storage holds it, in storage order (a sub-list) -/
theorem intergenic_records_spec (p : Params) (cutoff : Int) (l : List IgAln) :
    (intergenicRecords p cutoff l).Sublist l ∧
    ∀ a, (intergenicRecords p cutoff l).count a = if intergenicRecord p cutoff a then l.count a else 0 := by
  refine ⟨List.filter_sublist, ?_⟩
  intro a
  unfold intergenicRecords
  induction l with
  | nil => simp
  | cons b t ih =>
    by_cases hb : intergenicRecord p cutoff b = true
    · rw [List.filter_cons_of_pos hb, List.count_cons, List.count_cons, ih]
      by_cases hba : b = a
      · subst hba; simp [hb]
      · have : (b == a) = false := by simpa using hba
        simp [this]
    · rw [List.filter_cons_of_neg hb, List.count_cons, ih]
      by_cases hba : b = a
      · subst hba; simp [hb]
      · have : (b == a) = false := by simpa using hba
        simp [this]

/-- **filter_after_trimming_witness**: if the simple-alignment filter looked at the trimmed exon list, a primary MAPQ-0
    alignment with three exons whose last exon is an aligned polyA tail would get no record -/
theorem filter_after_trimming_witness :
    ∃ a : IgAln, 3 ≤ a.exons ∧ passes ⟨false, 0⟩ a.aln = true ∧ intergenicRecord ⟨false, 0⟩ 1 a = true ∧
      (passes ⟨false, 0⟩ a.aln && keepIntergenicAfterTrim 1 a) = false :=
  ⟨⟨⟨2000, 3530, false, false, true, 0, 7⟩, 3, 2⟩, by decide, by decide, by decide, by decide⟩

/-! ### non-vacuity -/

example : (3 : Nat) ≤ (⟨⟨2000, 3530, false, false, true, 0, 7⟩, 3, 2⟩ : IgAln).exons ∧
    passes ⟨true, 0⟩ (⟨2000, 3530, false, false, true, 0, 7⟩ : Aln) = true := by decide

example : (1 : Nat) ≤ (⟨⟨10, 600, false, false, true, 1, 3⟩, 2, 2⟩ : IgAln).exons ∧
    (⟨⟨10, 600, false, false, true, 1, 3⟩, 2, 2⟩ : IgAln).exons ≤ 2 ∧
    intergenicRecord ⟨false, 0⟩ 1 ⟨⟨10, 600, false, false, true, 1, 3⟩, 2, 2⟩ = true ∧
    intergenicRecord ⟨false, 0⟩ 1 ⟨⟨10, 600, false, false, true, 0, 3⟩, 2, 2⟩ = false := by decide

end IsoVerif.Props.C05Intergenic
