/-
C18 (first half) — the Canonical flag of a read / transcript model is a pure function of the reference sequence:
True exactly when every intron has a canonical dinucleotide pair on the reported strand, independently of which
other reads or models were processed before.

Property theorems only (helpers: IsoVerif/Lemmas/Canonical.lean).  The tables are the *generated* ones
(IsoVerif/Gen/Constants.lean, re-extracted from /repo/src/common.py on every run).
The strand half of the property is in Props/C18Strand.lean.
-/
import IsoVerif.Model.Canonical
import IsoVerif.Lemmas.Canonical

namespace IsoVerif.Props.C18
open IsoVerif.Gen IsoVerif.Model IsoVerif.Model.C18 IsoVerif.Lemmas.C18

/-! ### the tables -/

/-- the generated tables are the three splice-site pairs GT-AG, GC-AG, AT-AC (as read on the forward strand) and
    CT-AC, CT-GC, GT-AT (the same introns seen from the reverse strand) -/
theorem tables_literal :
    fwdSites = [(['A','T'],['A','C']), (['G','C'],['A','G']), (['G','T'],['A','G'])] ∧
    revSites = [(['C','T'],['A','C']), (['C','T'],['G','C']), (['G','T'],['A','T'])] := by
  decide

def comp : Char → Char
  | 'A' => 'T'
  | 'C' => 'G'
  | 'G' => 'C'
  | 'T' => 'A'
  | c => c

/-- an intron whose ends read (l, r) on the forward strand reads (revcomp r, revcomp l) on the reverse strand -/
def revcompSite (p : Site) : Site := (p.2.reverse.map comp, p.1.reverse.map comp)

/-- the reverse table is exactly the reverse complement of the forward table -/
theorem rev_table_is_revcomp :
    (∀ p ∈ fwdSites, revcompSite p ∈ revSites) ∧ (∀ p ∈ revSites, revcompSite p ∈ fwdSites) ∧
    fwdSites.length = revSites.length := by
  decide

/-- no pair is canonical on both strands (so `is_fwd == is_rev` means "on neither") -/
theorem tables_disjoint (p : Site) : ¬ (isFwd p = true ∧ isRev p = true) := by
  have h : ∀ q ∈ fwdSites, q ∉ revSites := by decide
  intro ⟨hf, hr⟩
  simp only [isFwd, isRev, List.contains_iff_mem] at hf hr
  exact h p hf hr

/-- every table entry is a pair of dinucleotides in upper case -/
theorem tables_shape : ∀ p ∈ fwdSites ++ revSites, p.1.length = 2 ∧ p.2.length = 2 ∧ upperSite p = p := by
  decide

/-! ### declarative reading of one query -/

/-- the base of the reference at 1-based genome position `p`, case-folded (`none` outside the loaded region) -/
def baseAt (g : GeneRef) (p : Int) : Option Char :=
  if p < g.start then none else (g.refRegion[(p - g.start).toNat]?).map Char.toUpper

def tableOf (st : Strand) : List Site := if st = .plus then fwdSites else revSites

/-- "the intron has a canonical dinucleotide pair on strand `st` in the reference": the first two and the last two
    bases of the intron, read on the forward strand of the FASTA, form a pair of the table of that strand -/
def CanonicalOn (g : GeneRef) (it : Iv) (st : Strand) : Prop :=
  ∃ a b c d, baseAt g it.1 = some a ∧ baseAt g (it.1 + 1) = some b ∧
             baseAt g (it.2 - 1) = some c ∧ baseAt g it.2 = some d ∧ ([a, b], [c, d]) ∈ tableOf st

/-- The value computed on a memo miss is the declarative predicate, for every intron that does not start before the
    loaded region (Python would wrap a negative index; see `negative_index_wrap_witness`).  Introns reaching beyond
    the end of the region are covered: both sides are false. -/
theorem canonCompute_iff (g : GeneRef) (it : Iv) (st : Strand) (h1 : g.start ≤ it.1) (h2 : g.start < it.2) :
    canonCompute g it st = true ↔ CanonicalOn g it st := by
  have hl : 0 ≤ it.1 - g.start := by omega
  have hr : 0 ≤ it.2 - g.start - 1 := by omega
  have e2 : it.2 - g.start + 1 = (it.2 - g.start - 1) + 2 := by omega
  have key : ∀ tbl : List Site, (∀ p ∈ tbl, p.1.length = 2 ∧ p.2.length = 2) →
      (upperSite (siteRaw g.refRegion g.start it) ∈ tbl ↔
        ∃ a b c d, baseAt g it.1 = some a ∧ baseAt g (it.1 + 1) = some b ∧
             baseAt g (it.2 - 1) = some c ∧ baseAt g it.2 = some d ∧ ([a, b], [c, d]) ∈ tbl) := by
    intro tbl hshape
    have n1 : ¬ it.1 < g.start := by omega
    have n2 : ¬ it.1 + 1 < g.start := by omega
    have n3 : ¬ it.2 - 1 < g.start := by omega
    have n4 : ¬ it.2 < g.start := by omega
    have t2 : (it.1 + 1 - g.start).toNat = (it.1 - g.start).toNat + 1 := by omega
    have t3 : (it.2 - 1 - g.start).toNat = (it.2 - g.start - 1).toNat := by omega
    have t4 : (it.2 - g.start).toNat = (it.2 - g.start - 1).toNat + 1 := by omega
    simp only [siteRaw, upperSite, baseAt, n1, n2, n3, n4, if_false, t2, t3, t4]
    rw [show it.2 - g.start - 1 = it.2 - g.start - 1 from rfl, e2, pySlice_two _ _ hl, pySlice_two _ _ hr]
    constructor
    · intro hmem
      obtain ⟨hs1, hs2⟩ := hshape _ hmem
      generalize hL : List.map Char.toUpper (List.take 2 (List.drop (it.1 - g.start).toNat g.refRegion)) = L at hmem hs1
      generalize hR : List.map Char.toUpper (List.take 2 (List.drop (it.2 - g.start - 1).toNat g.refRegion)) = R at hmem hs2
      match L, hs1 with
      | [a, b], _ =>
        match R, hs2 with
        | [c, d], _ =>
          rw [take2_map_eq] at hL hR
          exact ⟨a, b, c, d, hL.1, hL.2, hR.1, hR.2, hmem⟩
    · rintro ⟨a, b, c, d, ha, hb, hc, hd, hmem⟩
      have eL := (take2_map_eq Char.toUpper g.refRegion (it.1 - g.start).toNat a b).mpr ⟨ha, hb⟩
      have eR := (take2_map_eq Char.toUpper g.refRegion (it.2 - g.start - 1).toNat c d).mpr ⟨hc, hd⟩
      rw [eL, eR]; exact hmem
  have shape : ∀ tbl, (tbl = fwdSites ∨ tbl = revSites) → ∀ p ∈ tbl, p.1.length = 2 ∧ p.2.length = 2 := by
    intro tbl ht p hp
    have := tables_shape p (by rcases ht with rfl | rfl <;> simp [hp])
    exact ⟨this.1, this.2.1⟩
  unfold canonCompute CanonicalOn tableOf
  by_cases hst : st = .plus
  · simp only [hst, if_true, isFwd, List.contains_iff_mem]
    exact key fwdSites (shape _ (Or.inl rfl))
  · simp only [hst, if_false, isRev, List.contains_iff_mem]
    exact key revSites (shape _ (Or.inr rfl))

/-! ### the memo: invariant, purity over all query histories -/

/-- memo states that can arise for one `gene_info`: empty after `set_reference_sequence`, then any sequence of
    queries (reads of the locus, transcript models, in any order and on any strand) -/
inductive Reachable (g : GeneRef) : CanonMemo → Prop
  | fresh : Reachable g []
  | query (σ : CanonMemo) (introns : List Iv) (st : Strand) :
      Reachable g σ → Reachable g (checkSites g introns st σ).2

/-- the answer the statement demands: every intron is canonical on the strand; for a record of unknown strand (`.`;
    DESIGN §6): the whole intron chain is canonical on `+`, or the whole chain is canonical on `-` -/
def pureAnswer (g : GeneRef) (introns : List Iv) (st : Strand) : Bool := pureAll g introns st

theorem pureAnswer_stranded (g : GeneRef) (introns : List Iv) (st : Strand) (hst : st ≠ .dot) :
    pureAnswer g introns st = introns.all fun it => canonCompute g it st := by
  simp [pureAnswer, pureAll, hst]

theorem pureAnswer_dot (g : GeneRef) (introns : List Iv) :
    pureAnswer g introns .dot = (pureAnswer g introns .plus || pureAnswer g introns .minus) := by
  simp [pureAnswer, pureAll]

/-- invariant: every reachable memo stores only values of the pure function -/
theorem memo_invariant {g : GeneRef} {σ : CanonMemo} (h : Reachable g σ) : MemoOK g σ := by
  induction h with
  | fresh => exact memoOK_nil g
  | query σ introns st _ ih => exact (checkSites_spec g st introns σ ih).2

/-- **canonical_pure** (full strength): in every reachable memo state, whatever was asked before and on whichever
    strands, the answer is the pure function of (reference sequence, introns, strand) -/
theorem canonical_pure {g : GeneRef} {σ : CanonMemo} (h : Reachable g σ) (introns : List Iv) (st : Strand) :
    (checkSites g introns st σ).1 = pureAnswer g introns st :=
  (checkSites_spec g st introns σ (memo_invariant h)).1

/-- the same with the declarative right-hand side: True exactly when every intron has a canonical pair on the strand -/
theorem canonical_pure_declarative {g : GeneRef} {σ : CanonMemo} (h : Reachable g σ) (introns : List Iv) (st : Strand)
    (hst : st ≠ .dot) (hin : ∀ it ∈ introns, g.start ≤ it.1 ∧ g.start < it.2) :
    (checkSites g introns st σ).1 = true ↔ ∀ it ∈ introns, CanonicalOn g it st := by
  rw [canonical_pure h, pureAnswer_stranded g introns st hst, List.all_eq_true]
  constructor
  · intro hh it hit; exact (canonCompute_iff g it st (hin it hit).1 (hin it hit).2).mp (hh it hit)
  · intro hh it hit; exact (canonCompute_iff g it st (hin it hit).1 (hin it hit).2).mpr (hh it hit)

/-- the unknown strand (`.`), declaratively: True exactly when every intron has a canonical pair on `+`, or every intron
    has a canonical pair on `-` (one strand for the whole chain) -/
theorem canonical_pure_declarative_dot {g : GeneRef} {σ : CanonMemo} (h : Reachable g σ) (introns : List Iv)
    (hin : ∀ it ∈ introns, g.start ≤ it.1 ∧ g.start < it.2) :
    (checkSites g introns .dot σ).1 = true ↔
      (∀ it ∈ introns, CanonicalOn g it .plus) ∨ (∀ it ∈ introns, CanonicalOn g it .minus) := by
  have hp := canonical_pure_declarative (Reachable.fresh (g := g)) introns .plus (by decide) hin
  have hm := canonical_pure_declarative (Reachable.fresh (g := g)) introns .minus (by decide) hin
  rw [canonical_pure Reachable.fresh] at hp hm
  rw [canonical_pure h, pureAnswer_dot, Bool.or_eq_true, hp, hm]

theorem runQueries_spec (g : GeneRef) :
    ∀ (qs : List (List Iv × Strand)) (σ : CanonMemo), Reachable g σ →
      (runQueries g qs σ).1 = qs.map (fun q => pureAnswer g q.1 q.2) ∧ Reachable g (runQueries g qs σ).2 := by
  intro qs
  induction qs with
  | nil => intro σ h; exact ⟨rfl, h⟩
  | cons q rest ih =>
    intro σ h
    have hq := canonical_pure h q.1 q.2
    have := ih _ (Reachable.query σ q.1 q.2 h)
    simp only [runQueries, List.map_cons]
    exact ⟨by rw [hq, this.1], this.2⟩

/-- every history of queries against a fresh `gene_info` answers each query by the pure function: the list of answers
    is the map of `pureAnswer` over the history (so it is invariant under any reordering, insertion or deletion of
    other queries) -/
theorem canonical_history_independent (g : GeneRef) (qs : List (List Iv × Strand)) :
    (runQueries g qs []).1 = qs.map (fun q => pureAnswer g q.1 q.2) :=
  (runQueries_spec g qs [] Reachable.fresh).1

/-- two different histories give the same answer to the same final query -/
theorem canonical_same_answer_after_any_histories (g : GeneRef) (h₁ h₂ : List (List Iv × Strand))
    (introns : List Iv) (st : Strand) :
    (checkSites g introns st (runQueries g h₁ []).2).1 = (checkSites g introns st (runQueries g h₂ []).2).1 := by
  rw [canonical_pure (runQueries_spec g h₁ [] Reachable.fresh).2,
      canonical_pure (runQueries_spec g h₂ [] Reachable.fresh).2]

/-! ### the code before the two fixes (regression witnesses, replayed on the real code by the oracle) -/

def witnessSeq : Seq := "AAAAGTCCCCCCAGTTTT".toList     -- intron (5,14) is GT..AG

/-- before 29fb9df (memo keyed by the intron only): `+` then `-` on the same GT-AG intron answers True twice,
    a fresh `-` query answers False -/
theorem canonical_pure_buggy_witness :
    (runQueriesBuggy ⟨witnessSeq, 1⟩ [([(5, 14)], .plus), ([(5, 14)], .minus)] []).1 = [true, true] ∧
    (runQueriesBuggy ⟨witnessSeq, 1⟩ [([(5, 14)], .minus)] []).1 = [false] ∧
    (runQueries ⟨witnessSeq, 1⟩ [([(5, 14)], .plus), ([(5, 14)], .minus)] []).1 = [true, false] := by
  decide

/-- before 35f57f0 (no case folding): the same intron in a soft-masked region was never canonical, while
    `get_intron_strand` called it a `+` intron -/
theorem canonical_case_witness :
    canonComputeNoUpper ⟨witnessSeq.map Char.toLower, 1⟩ (5, 14) .plus = false ∧
    canonCompute ⟨witnessSeq.map Char.toLower, 1⟩ (5, 14) .plus = true ∧
    getIntronStrand (5, 14) (witnessSeq.map Char.toLower) = .plus := by
  decide

/-- outside the hypothesis of `canonCompute_iff`: an "intron" that starts before the loaded region makes Python wrap
    the negative index, so the code looks at the *end* of the region (model and code agree; such introns do not occur:
    the region always contains the reads of the locus) -/
theorem negative_index_wrap_witness :
    canonCompute ⟨"AGGTCC".toList, 10⟩ (6, 11) .plus = true ∧ ¬ CanonicalOn ⟨"AGGTCC".toList, 10⟩ (6, 11) .plus := by
  refine ⟨by decide, ?_⟩
  rintro ⟨a, b, c, d, ha, _⟩
  simp [baseAt] at ha

/-- before the repair of the unknown strand (`_witness`; audit C11-G3): `.` was looked up as `-`, so the GT-AG intron of
    the witness sequence answered False for `.` while its mirror image (the CT-AC intron (5,14) of the reverse complement
    `AAAACTGGGGGGACTTTT`) answered True; the repaired function answers True for both (and False for a chain that is
    canonical on neither strand, or on `+` for one intron and on `-` for the other) -/
theorem dot_flag_orig_witness :
    (checkSitesOrig ⟨witnessSeq, 1⟩ [(5, 14)] .dot []).1 = false ∧
    (checkSitesOrig ⟨"AAAACTGGGGGGACTTTT".toList, 1⟩ [(5, 14)] .dot []).1 = true ∧
    (checkSites ⟨witnessSeq, 1⟩ [(5, 14)] .dot []).1 = true ∧
    (checkSites ⟨"AAAACTGGGGGGACTTTT".toList, 1⟩ [(5, 14)] .dot []).1 = true ∧
    (checkSites ⟨"AAAAGTCCAGAACTCCACTT".toList, 1⟩ [(5, 10), (13, 18)] .dot []).1 = false ∧
    (checkSites ⟨"AAAAGTCCAGAACTCCACTT".toList, 1⟩ [(5, 10)] .dot []).1 = true ∧
    (checkSites ⟨"AAAAGTCCAGAACTCCACTT".toList, 1⟩ [(13, 18)] .dot []).1 = true := by
  decide

/-! ### transcript models and read lines -/

/-- the flag the statement demands for a record with exon blocks `exons` on strand `st` -/
def pureFlag (g : GeneRef) (exons : List Iv) (st : Strand) : String :=
  if junctionsFromBlocks exons = [] then "Unspliced" else boolStr (pureAnswer g (junctionsFromBlocks exons) st)

/-- `add_canonical_info_for_model`: a model without the attribute gets `Unspliced` / the pure answer for its introns
    and strand, whatever the memo holds; the memo stays reachable -/
theorem model_flag_pure {g : GeneRef} {σ : CanonMemo} (h : Reachable g σ) (m : TModel)
    (href : g.refRegion ≠ []) (hattr : m.canonicalAttr = none) :
    (addCanonicalInfoForModel g m σ).1.canonicalAttr = some (pureFlag g m.exons m.strand) ∧
    (addCanonicalInfoForModel g m σ).1.exons = m.exons ∧ (addCanonicalInfoForModel g m σ).1.strand = m.strand ∧
    Reachable g (addCanonicalInfoForModel g m σ).2 := by
  have he : g.refRegion.isEmpty = false := by
    cases hg : g.refRegion with
    | nil => exact absurd hg href
    | cons _ _ => rfl
  unfold addCanonicalInfoForModel pureFlag
  simp only [he, hattr, Option.isSome_none, Bool.false_eq_true, if_false]
  by_cases hj : junctionsFromBlocks m.exons = []
  · simp [hj, h]
  · have hl : ¬ (junctionsFromBlocks m.exons).length = 0 := by
      intro h0; exact hj (List.eq_nil_of_length_eq_zero h0)
    simp only [hl, hj, if_false]
    refine ⟨by rw [canonical_pure h], ?_, ?_, Reachable.query σ _ _ h⟩ <;> trivial

/-- the statement's clause for transcript models, declaratively: the attribute is `True` exactly when the model is
    spliced and every intron has a canonical pair on the model's strand; `Unspliced` exactly when it has no intron -/
theorem model_flag_declarative {g : GeneRef} {σ : CanonMemo} (h : Reachable g σ) (m : TModel)
    (href : g.refRegion ≠ []) (hattr : m.canonicalAttr = none) (hst : m.strand ≠ .dot)
    (hin : ∀ it ∈ junctionsFromBlocks m.exons, g.start ≤ it.1 ∧ g.start < it.2) :
    ((addCanonicalInfoForModel g m σ).1.canonicalAttr = some "True" ↔
      junctionsFromBlocks m.exons ≠ [] ∧ ∀ it ∈ junctionsFromBlocks m.exons, CanonicalOn g it m.strand) ∧
    ((addCanonicalInfoForModel g m σ).1.canonicalAttr = some "Unspliced" ↔ junctionsFromBlocks m.exons = []) := by
  rw [(model_flag_pure h m href hattr).1]
  unfold pureFlag
  have hdecl := canonical_pure_declarative h (junctionsFromBlocks m.exons) m.strand hst hin
  rw [canonical_pure h] at hdecl
  by_cases hj : junctionsFromBlocks m.exons = []
  · simp [hj]
  · simp only [hj, if_false, Option.some.injEq, ne_eq, not_false_eq_true, true_and, iff_false]
    cases hb : pureAnswer g (junctionsFromBlocks m.exons) m.strand with
    | true => rw [hb] at hdecl; exact ⟨by simpa [boolStr] using hdecl.mp rfl, by decide⟩
    | false =>
      rw [hb] at hdecl
      refine ⟨?_, by decide⟩
      simp only [boolStr, Bool.false_eq_true, if_false]
      constructor
      · intro hh; exact absurd hh (by decide)
      · intro hh; exact absurd (hdecl.mpr hh) (by decide)

/-- a model that already carries the attribute, or a locus without reference sequence, is left untouched -/
theorem model_flag_untouched (g : GeneRef) (σ : CanonMemo) (m : TModel)
    (h : g.refRegion = [] ∨ m.canonicalAttr.isSome = true) :
    addCanonicalInfoForModel g m σ = (m, σ) := by
  unfold addCanonicalInfoForModel
  rcases h with h | h
  · simp [h]
  · simp [h]

/-- `add_canonical_info` over a whole model storage: every model's flag is the pure flag of that model alone
    (independent of the other models in the storage and of their order) -/
theorem model_storage_flags_pure (g : GeneRef) (href : g.refRegion ≠ []) :
    ∀ (ms : List TModel) (σ : CanonMemo), Reachable g σ → (∀ m ∈ ms, m.canonicalAttr = none) →
      ((addCanonicalInfo g ms σ).1.map (·.canonicalAttr) = ms.map (fun m => some (pureFlag g m.exons m.strand))) ∧
      Reachable g (addCanonicalInfo g ms σ).2 := by
  intro ms
  induction ms with
  | nil => intro σ h _; exact ⟨rfl, h⟩
  | cons m rest ih =>
    intro σ h hn
    have hm := model_flag_pure h m href (hn m (by simp))
    have := ih _ hm.2.2.2 (fun m' hm' => hn m' (by simp [hm']))
    simp only [addCanonicalInfo, List.map_cons]
    exact ⟨by rw [hm.1, this.1], this.2⟩

/-- the `Canonical=` field of a read line: printed iff `--check_canonical` and the locus has a reference region;
    then it is the pure flag of the read's exons and reported strand -/
theorem read_field_pure {g : GeneRef} {σ : CanonMemo} (h : Reachable g σ) (check : Bool) (exons : List Iv) (st : Strand) :
    (readCanonicalField check g exons st σ).1 =
      (if check = true ∧ g.refRegion ≠ [] then some (pureFlag g exons st) else none) ∧
    Reachable g (readCanonicalField check g exons st σ).2 := by
  unfold readCanonicalField pureFlag
  cases check with
  | false => simp [h]
  | true =>
    cases hg : g.refRegion with
    | nil => simp [h]
    | cons c cs =>
      simp only [List.isEmpty_cons, Bool.not_false, Bool.and_self, if_true, ne_eq, reduceCtorEq, not_false_eq_true,
        and_self]
      by_cases hj : junctionsFromBlocks exons = []
      · simp [hj, h]
      · have hl : ¬ (junctionsFromBlocks exons).length = 0 := by
          intro h0; exact hj (List.eq_nil_of_length_eq_zero h0)
        simp only [hl, hj, if_false]
        exact ⟨by rw [canonical_pure h], Reachable.query σ _ _ h⟩

/-! ### the loaded region is a window on the chromosome -/

/-- `set_reference_sequence(start, end, chr)` followed by the site look-up with offset `start` reads the same four
    bases as a look-up on the whole chromosome, for every intron inside the window — wherever the window ends: a window
    (gene annotated) beyond the last base of the contig is clamped by the slice, and positions beyond the contig are
    absent from the window exactly as they are absent from the chromosome -/
theorem region_slice_invariant (chr : Seq) (start end_ : Int) (it : Iv)
    (hs : 1 ≤ start) (h1 : start ≤ it.1) (h2 : it.1 + 1 ≤ end_)
    (h3 : start < it.2) (h4 : it.2 ≤ end_) :
    siteRaw (setReferenceSequence chr start end_).1.refRegion start it = siteRaw chr 1 it := by
  have hmax : max 1 start = start := by omega
  simp only [setReferenceSequence, siteRaw, hmax]
  have e2 : it.2 - start + 1 = (it.2 - start - 1) + 2 := by omega
  have e3 : it.2 - 1 + 1 = (it.2 - 1 - 1) + 2 := by omega
  rw [e2, e3, pySlice_two _ _ (by omega), pySlice_two _ _ (by omega), pySlice_two _ _ (by omega),
    pySlice_two _ _ (by omega)]
  rw [pySlice_range_clamp chr (start - 1) end_ (by omega) (by omega)]
  rw [take2_drop_slice _ _ _ _ (by omega), take2_drop_slice _ _ _ _ (by omega)]
  have a1 : (start - 1).toNat + (it.1 - start).toNat = (it.1 - 1).toNat := by omega
  have a2 : (start - 1).toNat + (it.2 - start - 1).toNat = (it.2 - 1 - 1).toNat := by omega
  rw [a1, a2]

/-- a window that is asked to start at or before position 0 (0-based start of a read cluster at the first base of
    the contig) is the window starting at base 1 -/
theorem region_start_clamped (chr : Seq) (start end_ : Int) (hs : start ≤ 1) :
    setReferenceSequence chr start end_ = setReferenceSequence chr 1 end_ := by
  have : max 1 start = 1 := by omega
  simp [setReferenceSequence, this]

/-- before the clamp (`_witness`): the window asked to start at 0 is empty, so `add_canonical_info_for_model` leaves the
    model without the attribute although its intron is GT-AG; with the clamp the flag is `True` -/
theorem region_start_zero_witness :
    (setReferenceSequenceNoClamp witnessSeq 0 16).1.refRegion = [] ∧
    (addCanonicalInfoForModel (setReferenceSequenceNoClamp witnessSeq 0 16).1 ⟨[(1, 4), (15, 16)], .plus, none⟩ []).1.canonicalAttr
      = none ∧
    (addCanonicalInfoForModel (setReferenceSequence witnessSeq 0 16).1 ⟨[(1, 4), (15, 16)], .plus, none⟩ []).1.canonicalAttr
      = some "True" := by
  decide

/-- hence the flag does not depend on which window of the chromosome the locus loaded (the per-locus `gene_info` of
    the read/model pass and the whole-chromosome `gene_info` of the extended annotation give the same answers), and
    the window's memo starts empty.  No hypothesis on where the window ends (it may end beyond the contig) nor on
    whether the introns lie inside the contig (beyond it both look-ups find no bases: `False` on either side). -/
theorem flag_independent_of_region (chr : Seq) (start end_ : Int) (introns : List Iv) (st : Strand)
    (hs : 1 ≤ start)
    (hin : ∀ it ∈ introns, start ≤ it.1 ∧ it.1 + 1 ≤ end_ ∧ start < it.2 ∧ it.2 ≤ end_) :
    pureAnswer (setReferenceSequence chr start end_).1 introns st = pureAnswer ⟨chr, 1⟩ introns st ∧
    (setReferenceSequence chr start end_).2 = [] := by
  refine ⟨?_, rfl⟩
  have hall : ∀ st' : Strand, (introns.all fun it => canonCompute (setReferenceSequence chr start end_).1 it st') =
      (introns.all fun it => canonCompute ⟨chr, 1⟩ it st') := by
    intro st'
    have key' : ∀ it ∈ introns,
        canonCompute (setReferenceSequence chr start end_).1 it st' = canonCompute ⟨chr, 1⟩ it st' := by
      intro it hit
      obtain ⟨h1, h2, h3, h4⟩ := hin it hit
      have := region_slice_invariant chr start end_ it hs h1 h2 h3 h4
      simp only [canonCompute]
      rw [show (setReferenceSequence chr start end_).1.start = start from by simp [setReferenceSequence]; omega, this]
    rw [Bool.eq_iff_iff, List.all_eq_true, List.all_eq_true]
    constructor
    · intro h it hit; rw [← key' it hit]; exact h it hit
    · intro h it hit; rw [key' it hit]; exact h it hit
  unfold pureAnswer pureAll
  simp only [hall]

/-! ### non-vacuity -/

-- a reachable, non-empty memo; an in-range canonical intron; both strands queried
example : Reachable ⟨witnessSeq, 1⟩ (checkSites ⟨witnessSeq, 1⟩ [(5, 14)] .plus []).2 ∧
    (checkSites ⟨witnessSeq, 1⟩ [(5, 14)] .plus []).2 ≠ [] :=
  ⟨Reachable.query [] _ _ Reachable.fresh, by decide⟩

example : (1 : Int) ≤ (5, 14).1 ∧ (1 : Int) < ((5, 14) : Iv).2 ∧ canonCompute ⟨witnessSeq, 1⟩ (5, 14) .plus = true ∧
    canonCompute ⟨witnessSeq, 1⟩ (5, 14) .minus = false := by decide

example : CanonicalOn ⟨witnessSeq, 1⟩ (5, 14) .plus :=
  (canonCompute_iff _ _ _ (by decide) (by decide)).mp (by decide)

example : (addCanonicalInfoForModel ⟨witnessSeq, 1⟩ ⟨[(1, 4), (15, 18)], .plus, none⟩ []).1.canonicalAttr = some "True" ∧
    (addCanonicalInfoForModel ⟨witnessSeq, 1⟩ ⟨[(1, 4), (15, 18)], .minus, none⟩ []).1.canonicalAttr = some "False" ∧
    (addCanonicalInfoForModel ⟨witnessSeq, 1⟩ ⟨[(1, 18)], .minus, none⟩ []).1.canonicalAttr = some "Unspliced" := by
  decide

-- a window (3..16) of the witness chromosome containing the intron (5,14)
example : (1 : Int) ≤ 3 ∧ (16 : Int) ≤ witnessSeq.length ∧
    pureAnswer (setReferenceSequence witnessSeq 3 16).1 [(5, 14)] .plus = true ∧
    (setReferenceSequence witnessSeq 3 16).1.refRegion = "AAGTCCCCCCAGTT".toList := by decide

-- a window that ends beyond the 18-base contig (gene end 1000 in the GTF): the slice is clamped, the answers are the
-- chromosome's; an "intron" (15, 25) reaching beyond the contig inside such a window answers False on both sides
example : (1000 : Int) > witnessSeq.length ∧
    (setReferenceSequence witnessSeq 3 1000).1.refRegion = "AAGTCCCCCCAGTTTT".toList ∧
    pureAnswer (setReferenceSequence witnessSeq 3 1000).1 [(5, 14)] .plus = true ∧
    pureAnswer (setReferenceSequence witnessSeq 3 1000).1 [(15, 25)] .plus = false ∧
    pureAnswer ⟨witnessSeq, 1⟩ [(15, 25)] .plus = false := by decide

end IsoVerif.Props.C18
