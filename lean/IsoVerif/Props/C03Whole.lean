/-
C03 — capstone: for every history of dump calls inside the assumption interface, the file written by the printer
satisfies every structural clause of the property statement at the level of GTF records.
Property theorems only.
-/
import IsoVerif.Model.Gtf
import IsoVerif.Lemmas.C03GtfDump
import IsoVerif.Props.C03Hist
import IsoVerif.Props.C03

namespace IsoVerif.Props.C03Whole
open IsoVerif.Gen IsoVerif.Model IsoVerif.Lemmas IsoVerif.Model.C03 IsoVerif.Lemmas.C03
open IsoVerif.Props.C03Hist IsoVerif.Props.C03

/-- the assumption interface for one printer (one chromosome `chr0` of length `L`): what the constructor theorems
    (`novel_spliced_model_wellformed`, `reference_verbatim` + a well-formed annotation) and the id distributor
    deliver, and what the oracle monitors on pipeline outputs -/
structure GoodHistory (calls : List Call) (chr0 : Id) (L : Int) : Prop where
  one_chr : ∀ cl ∈ calls, cl.ctx.chr = chr0
  ids_distinct : ((validModels calls).map (·.tid)).Nodup
  strands : UniformStrands calls
  exons_ok : ∀ m, InHistory calls m → SD m.exons ∧ ∀ x ∈ m.exons, x.2 ≤ L
  other_not_exon : ∀ m, InHistory calls m → ∀ f ∈ m.other, f.2.2 ≠ 0

/-- every structural clause of the statement, on the records of one file (one chromosome) -/
structure WellFormedFile (out : List Line) (chr0 : Id) (L : Int) : Prop where
  /-- each gene record appears exactly once -/
  gene_once : (geneIds out).Nodup
  /-- each transcript record appears exactly once -/
  tx_once : (txIds out).Nodup
  /-- every transcript has its gene record, on the same chromosome and strand -/
  tx_gene : ∀ c s e st g t, Line.tx c s e st g t ∈ out →
    c = chr0 ∧ ∃ s' e' n, Line.gene chr0 s' e' st g n ∈ out
  /-- all gene records of a gene's transcripts agree in chromosome and strand -/
  gene_tx_strand : ∀ c s e st g n c' s' e' st' t, Line.gene c s e st g n ∈ out → Line.tx c' s' e' st' g t ∈ out →
    c' = c ∧ st' = st
  /-- every exon record belongs to a transcript record with the same chromosome, strand and gene, lies inside it
      and inside the chromosome, and is well-formed -/
  exon_in_tx : ∀ c s' e' st g t num, Line.feat c 0 s' e' st g t num ∈ out →
    1 ≤ s' ∧ s' ≤ e' ∧ e' ≤ L ∧ ∃ s e, Line.tx c s e st g t ∈ out ∧ s ≤ s' ∧ e' ≤ e
  /-- the transcript record spans exactly its exons: some exon starts at its start, some exon ends at its end
      (in particular there is at least one exon) -/
  tx_spans : ∀ c s e st g t, Line.tx c s e st g t ∈ out →
    (∃ e1 num, Line.feat c 0 s e1 st g t num ∈ out) ∧ (∃ s1 num, Line.feat c 0 s1 e st g t num ∈ out)
  /-- the exons of one transcript do not overlap -/
  exons_disjoint : ∀ c1 s1 e1 st1 g1 n1 c2 s2 e2 st2 g2 n2 t,
    Line.feat c1 0 s1 e1 st1 g1 t n1 ∈ out → Line.feat c2 0 s2 e2 st2 g2 t n2 ∈ out →
    (s1 = s2 ∧ e1 = e2) ∨ e1 < s2 ∨ e2 < s1

theorem inHistory_iff_mem (calls : List Call) (m : TModel) : InHistory calls m ↔ m ∈ validModels calls := by
  unfold InHistory validModels
  simp only [List.mem_flatMap, List.mem_filter]

/-- **history_output_wellformed**: ∀ call histories on a fresh printer inside the assumption interface, the output is
    a well-formed file.  (The remaining clause - the gene record contains *all* its transcripts - is
    `gene_contains_all_transcripts_partial` / `gene_contains_transcripts_inside_reference`; it is false in general.) -/
theorem history_output_wellformed (calls : List Call) (chr0 : Id) (L : Int) (hgood : GoodHistory calls chr0 L)
    (p' : List Id) (out : List Line) (h : runCalls [] calls = some (p', out)) : WellFormedFile out chr0 L := by
  have hchr := gene_chromosome calls chr0 hgood.one_chr [] p' out h
  have hgene := gene_line_once calls p' out h
  have htx := transcript_records_are_gated_models calls [] p' out h
  have hex := exon_records_are_model_exons calls [] p' out h
  -- the model behind an exon record of transcript `t`
  have exon_model : ∀ c s' e' st g t num, Line.feat c 0 s' e' st g t num ∈ out →
      ∃ m, InHistory calls m ∧ c = m.chr ∧ st = m.strand ∧ g = m.gid ∧ t = m.tid ∧ (s', e') ∈ m.exons := by
    intro c s' e' st g t num hl
    obtain ⟨m, hin, h1, h2, h3, h4, h5⟩ := hex.1 c 0 s' e' st g t num hl
    refine ⟨m, hin, h1, h2, h3, h4, ?_⟩
    rcases h5 with h5 | h5
    · exact absurd rfl (hgood.other_not_exon m hin _ h5)
    · exact h5.2
  -- facts about a gated model of the history
  have model_facts : ∀ m, InHistory calls m →
      ∃ f l, m.exons.head? = some f ∧ m.exons.getLast? = some l ∧
        Line.tx m.chr f.1 l.2 m.strand m.gid m.tid ∈ out ∧ validateExons m.exons = true := by
    intro m hin
    obtain ⟨cl, hcl, hm, hv⟩ := hin
    obtain ⟨tr, htr⟩ := runCalls_region_some calls [] p' out h cl hcl m hm hv
    have hreg := htr
    unfold regionOf? at htr
    cases hf : m.exons.head? with
    | none => simp [hf] at htr
    | some f =>
      cases hl : m.exons.getLast? with
      | none => simp [hf, hl] at htr
      | some l =>
        simp only [hf, hl, Option.some.injEq] at htr
        refine ⟨f, l, rfl, rfl, ?_, hv⟩
        exact (htx _ _ _ _ _ _).mpr ⟨m, ⟨cl, hcl, hm, hv⟩, by rw [hreg, ← htr], rfl, rfl, rfl, rfl⟩
  constructor
  · exact hgene.1
  · exact transcript_ids_distinct calls [] p' out h hgood.ids_distinct
  · intro c s e st g t hl
    have hc := hchr.2 c s e st g t hl
    refine ⟨hc, ?_⟩
    obtain ⟨m, hin, _, _, hst, hg, _⟩ := (htx c s e st g t).mp hl
    obtain ⟨c', s', e', st', n, hgl⟩ := (mem_geneIds out g).mp ((hgene.2 g).mpr ⟨m, hin, hg⟩)
    have h1 := hchr.1 c' s' e' st' g n hgl
    have h2 := gene_strand_matches_partial calls hgood.strands p' out h c' s' e' st' g n c s e st t hgl hl
    subst h1; subst h2
    exact ⟨s', e', n, hgl⟩
  · intro c s e st g n c' s' e' st' t hgl hl
    have h1 := hchr.1 c s e st g n hgl
    have h2 := hchr.2 c' s' e' st' g t hl
    exact ⟨by rw [h1, h2], gene_strand_matches_partial calls hgood.strands p' out h c s e st g n c' s' e' st' t hgl hl⟩
  · intro c s' e' st g t num hl
    obtain ⟨m, hin, h1, h2, h3, h4, h5⟩ := exon_model c s' e' st g t num hl
    obtain ⟨f, l, hf, hlast, htxl, hv⟩ := model_facts m hin
    have hgate := (validate_exons_iff m.exons).mp hv
    have hspan := transcript_record_spans m.exons f l hv hf hlast
    have hok := hgood.exons_ok m hin
    have hb := hgate.2 _ h5
    have := hspan.2.2.1 _ h5
    have := hspan.2.2.2 hok.1 _ h5
    have := hok.2 _ h5
    simp only at *
    refine ⟨by omega, by omega, by omega, f.1, l.2, ?_, by omega, by omega⟩
    rw [h1, h2, h3, h4]; exact htxl
  · intro c s e st g t hl
    obtain ⟨m, hin, hreg, hc, hst, hg, ht⟩ := (htx c s e st g t).mp hl
    obtain ⟨f, l, hf, hlast, _, hv⟩ := model_facts m hin
    have hspan := transcript_record_spans m.exons f l hv hf hlast
    have hse : s = f.1 ∧ e = l.2 := by
      unfold regionOf? at hreg
      simp only [hf, hlast, Option.some.injEq, Prod.mk.injEq] at hreg
      exact ⟨hreg.1.symm, hreg.2.symm⟩
    obtain ⟨n1, hn1⟩ := hex.2 m hin f hspan.1
    obtain ⟨n2, hn2⟩ := hex.2 m hin l hspan.2.1
    rw [← hc, ← hst, ← hg, ← ht, hse.1, hse.2]
    exact ⟨⟨f.2, n1, hn1⟩, ⟨l.1, n2, hn2⟩⟩
  · intro c1 s1 e1 st1 g1 n1 c2 s2 e2 st2 g2 n2 t hl1 hl2
    obtain ⟨m1, hin1, _, _, _, ht1, hx1⟩ := exon_model c1 s1 e1 st1 g1 t n1 hl1
    obtain ⟨m2, hin2, _, _, _, ht2, hx2⟩ := exon_model c2 s2 e2 st2 g2 t n2 hl2
    have hm : m1 = m2 := nodup_map_inj (·.tid) (validModels calls) hgood.ids_distinct
      m1 ((inHistory_iff_mem calls m1).mp hin1) m2 ((inHistory_iff_mem calls m2).mp hin2) (ht1.symm.trans ht2)
    subst hm
    obtain ⟨_, _, _, _, _, hv⟩ := model_facts m1 hin1
    have hw : WFl m1.exons := fun x hx => ((validate_exons_iff m1.exons).mp hv).2 x hx |>.2
    rcases SD_mem_disjoint m1.exons (hgood.exons_ok m1 hin1).1 hw _ hx1 _ hx2 with h3 | h3 | h3
    · left; simpa using h3
    · right; left; exact h3
    · right; right; exact h3

/-- a two-call history (two genes, both strands, a reference region) that meets the interface -/
def goodCalls : List Call :=
  [ { ctx := { chr := 3, regions := [(7, (10, 60))] },
      models := [{ chr := 3, strand := 0, tid := 1, gid := 7, exons := [(10, 20), (30, 40)], known := true },
                 { chr := 3, strand := 0, tid := 2, gid := 7, exons := [(12, 20), (30, 40), (50, 66)], known := false }] },
    { ctx := { chr := 3 },
      models := [{ chr := 3, strand := 1, tid := 5, gid := 9, exons := [(100, 140)], known := false }] } ]

-- non-vacuity: the run succeeds and prints 2 gene, 3 transcript and 6 exon records
example : (runCalls [] goodCalls).map (fun r => (r.1, r.2.length)) = some ([9, 7], 11) := by decide

example : GoodHistory goodCalls 3 1000 := by
  have hm : ∀ m, InHistory goodCalls m → m ∈ validModels goodCalls := fun m h => (inHistory_iff_mem goodCalls m).mp h
  have hv : validModels goodCalls =
      [{ chr := 3, strand := 0, tid := 1, gid := 7, exons := [(10, 20), (30, 40)], known := true },
       { chr := 3, strand := 0, tid := 2, gid := 7, exons := [(12, 20), (30, 40), (50, 66)], known := false },
       { chr := 3, strand := 1, tid := 5, gid := 9, exons := [(100, 140)], known := false }] := by decide
  constructor
  · decide
  · rw [hv]; decide
  · intro m1 m2 h1 h2
    have a := hm m1 h1; have b := hm m2 h2
    rw [hv] at a b
    simp only [List.mem_cons, List.not_mem_nil, or_false] at a b
    rcases a with a | a | a <;> rcases b with b | b | b <;> subst a <;> subst b <;> decide
  · intro m h
    have a := hm m h
    rw [hv] at a
    simp only [List.mem_cons, List.not_mem_nil, or_false] at a
    rcases a with a | a | a <;> subst a <;> decide
  · intro m h
    have a := hm m h
    rw [hv] at a
    simp only [List.mem_cons, List.not_mem_nil, or_false] at a
    rcases a with a | a | a <;> subst a <;> decide

end IsoVerif.Props.C03Whole
