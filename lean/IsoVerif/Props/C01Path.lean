/-
C01 (paths) — the consistent path of the assigner reports structurally compatible isoforms only, with a consistent
type; a read that is compatible with no isoform never gets its type from the consistent path; what the inconsistent
path returns is `classify_assignment` of the selected isoforms' events (proved sound in Props/C01.lean).

Everything is stated over the executable model of Model/Assign.lean (gene model from `GeneInfo.from_models`, read
profiles of Model/Profiles.lean, `LongReadAssigner`), for ALL annotations, parameter sets, alignments and polyA
positions.  `JunctionComparator.compare_junctions` is an input (`cj`) wherever it is consulted.
-/
import IsoVerif.Props.C01
import IsoVerif.Props.C19
import IsoVerif.Model.Assign
import IsoVerif.Lemmas.C01Sweep
import IsoVerif.Lemmas.C01Assign
import IsoVerif.Lemmas.C01Consistent

namespace IsoVerif.Props.C01Path
open IsoVerif.Gen IsoVerif.Model IsoVerif.Model.C01 IsoVerif.Lemmas IsoVerif.Lemmas.C01 IsoVerif.Props.C01

/-! ### structural compatibility (declarative; positions only) -/

/-- A read (alignment blocks) is structurally compatible with isoform `I`:
    * every read intron equals an intron of `I` within δ (both splice sites, `equal_ranges`, grounded in positions by
      `C19.equal_ranges_iff`);
    * no intron of `I` that the read's span overlaps by at least `minimal_intron_absence_overlap` positions (or
      contains, or lies inside — `C19.overlaps_at_least_spec`) is missed: each is matched by a read intron within δ;
    * the read's span lies inside the isoform's span ± `min_abs_exon_overlap`. -/
structure Compatible (p : Params) (blocks : List Iv) (I : IsoInfo) : Prop where
  introns_known : ∀ r ∈ junctionsFromBlocks blocks, ∃ k ∈ I.introns, equal_ranges r k p.delta = true
  none_missed : ∀ reg, regionOf blocks = some reg → ∀ k ∈ I.introns,
      overlaps_at_least reg k p.minimal_intron_absence_overlap = true →
      ∃ r ∈ junctionsFromBlocks blocks, equal_ranges r k p.delta = true
  inside : ∀ reg, regionOf blocks = some reg → contains_approx I.region reg p.min_abs_exon_overlap = true

/-- the polyA / polyT positions handed to the profile constructor do not cut into the read's own introns (the
    external positions are at or beyond the aligned ends: `find_polya_tail` returns `reference_end + shift`) -/
def PolyAOutside (blocks : List Iv) (pa : PolyA) : Prop :=
  (pa.extA = -1 ∨ ∀ r ∈ junctionsFromBlocks blocks, r.1 ≤ pa.extA) ∧
  (pa.extT = -1 ∨ ∀ r ∈ junctionsFromBlocks blocks, pa.extT ≤ r.2)

/-! ### what the read profile of `constructProfiles` is -/

theorem constructProfiles_spec (g : Gene) (p : Params) (blocks : List Iv) (pa : PolyA) (rp : ReadProf)
    (h : constructProfiles g p blocks pa = some rp) :
    rp.blocks = blocks ∧ regionOf blocks = some rp.region ∧ rp.introns = junctionsFromBlocks blocks ∧ rp.polya = pa ∧
    rp.intron = constructOverlapping g.introns (g.start, g.stop) (fun a b => equal_ranges a b p.delta)
      (fun a b => overlaps_at_least a b p.minimal_intron_absence_overlap) p.delta (junctionsFromBlocks blocks)
      rp.region pa.extA pa.extT := by
  unfold constructProfiles at h
  split at h
  · simp at h
  · rename_i reg hreg
    simp only at h
    split at h
    · simp at h
    · simp at h; subst h
      exact ⟨rfl, hreg, rfl, rfl, rfl⟩

/-- on the consistent branch of `assign_to_isoform` every read intron is marked 1 -/
theorem dispatch_consistent_read_ones (g : Gene) (rp : ReadProf) (h : dispatch g rp = .consistent)
    (hdom : ∀ v ∈ rp.intron.read, v = -1 ∨ v = 0 ∨ v = 1) : ∀ v ∈ rp.intron.read, v = 1 := by
  unfold dispatch at h
  split at h
  · simp at h
  · split at h
    · simp at h
    · split at h
      · simp at h
      · split at h
        · simp at h
        · rename_i hneg hzero
          intro v hv
          rcases hdom v hv with h1 | h1 | h1
          · exfalso; apply hneg; left
            exact List.any_eq_true.mpr ⟨v, hv, by simp [h1]⟩
          · exfalso; apply hzero; left
            exact List.any_eq_true.mpr ⟨v, hv, by simp [h1]⟩
          · exact h1

/-! ### the candidates of the consistent path are compatible -/

/-- an isoform that passes the three tests of `match_consistent` (contains the read, intron profile equal in the
    read's range) is structurally compatible, provided every read intron was marked 1 -/
theorem candidate_compatible (ms : List Isoform) (p : Params) (blocks : List Iv) (pa : PolyA) (g : Gene) (rp : ReadProf)
    (hwf : WellFormed ms) (hg : Gene.fromModels ms = some g) (hrp : constructProfiles g p blocks pa = some rp)
    (hpa : PolyAOutside blocks pa)
    (hones : ∀ v ∈ rp.intron.read, v = 1)
    (I : IsoInfo) (hI : I ∈ g.isos)
    (hcont : contains_approx I.region rp.region p.min_abs_exon_overlap = true)
    (heq : equalProfilesInRange I.intronProf rp.intron.gene rp.intron.range = some true) :
    Compatible p blocks I := by
  obtain ⟨_, hreg, _, _, hprof⟩ := constructProfiles_spec g p blocks pa rp hrp
  have spec := constructOverlapping_spec g.introns (g.start, g.stop) (fun a b => equal_ranges a b p.delta)
      (fun a b => overlaps_at_least a b p.minimal_intron_absence_overlap) p.delta (junctionsFromBlocks blocks)
      rp.region pa.extA pa.extT
  rw [← hprof] at spec
  have hrange0 : 0 ≤ rp.intron.range.1 := by
    rw [hprof]; simp only [constructOverlapping, profileRange]; omega
  -- a non-zero mark of the read's gene profile is copied by the isoform's profile
  have copy : ∀ (i : Nat) (v : Int), rp.intron.gene[i]? = some v → v ≠ 0 → I.intronProf[i]? = some v := by
    intro i v hv hv0
    obtain ⟨h1, h2⟩ := spec.range_ok i v hv hv0
    exact equalProfilesInRange_true _ _ _ heq i h1 h2 hrange0 v hv hv0
  refine ⟨?_, ?_, ?_⟩
  · -- every read intron is an intron of I within δ
    intro r hr
    obtain ⟨j, hj⟩ := List.mem_iff_getElem?.mp hr
    have hjl : j < rp.intron.read.length := by rw [spec.rlen]; exact getElem?_lt hj
    have hv : rp.intron.read[j]? = some 1 := by
      have : rp.intron.read[j]? = some rp.intron.read[j] := by simp [hjl]
      rw [this, hones _ (List.getElem_mem hjl)]
    obtain ⟨gi, k, hk, hcmp, hmark⟩ := spec.read_one j r hj hv
    have hk1 : rp.intron.gene[gi]? = some 1 := by
      rcases hmark with h1 | ⟨_, hmask⟩
      · exact h1
      · exfalso
        have hc := (IsoVerif.Props.C19.equal_ranges_iff r k p.delta).mp hcmp
        rcases hmask with ⟨hp, hgt⟩ | ⟨hp, hlt⟩
        · rcases hpa.1 with h | h
          · exact hp h
          · have := h r hr; omega
        · rcases hpa.2 with h | h
          · exact hp h
          · have := h r hr; omega
    have hI1 := copy gi 1 hk1 (by omega)
    exact ⟨k, (intronProf_one_iff ms g hg hwf I hI gi k hk).mp hI1, hcmp⟩
  · -- no intron of I inside the read span is missed
    intro reg hreg' k hk habs
    rw [hreg] at hreg'; injection hreg' with hreg'; subst hreg'
    obtain ⟨gi, hgi⟩ := intron_mem_gene ms g hg I hI k hk
    obtain ⟨v, hv, hv0⟩ := spec.absent_nonzero gi k hgi habs
    have hIv := copy gi v hv hv0
    have hI1 := (intronProf_one_iff ms g hg hwf I hI gi k hgi).mpr hk
    rw [hI1] at hIv; injection hIv with hIv; subst hIv
    obtain ⟨j, r, hr, hcmp⟩ := spec.gene_one gi k hgi hv
    exact ⟨r, List.mem_of_getElem? hr, hcmp⟩
  · intro reg hreg'
    rw [hreg] at hreg'; injection hreg' with hreg'; subst hreg'
    exact hcont

/-! ### C01, clause "every reported isoform is structurally compatible … the type is consistent" -/

/-- `consistent_path_sound`: whenever `assign_to_isoform` takes its result from `match_consistent`, the reported type
    is unique / unique_minor_difference / ambiguous and EVERY reported isoform is structurally compatible with the
    read.  For all annotations, parameters, alignments, polyA positions (outside the read's introns). -/
theorem consistent_path_sound (ms : List Isoform) (p : Params) (blocks : List Iv) (pa : PolyA) (g : Gene) (rp : ReadProf)
    (a : Assignment)
    (hwf : WellFormed ms) (hg : Gene.fromModels ms = some g) (hrp : constructProfiles g p blocks pa = some rp)
    (hpa : PolyAOutside blocks pa) (hdisp : dispatch g rp = .consistent)
    (hmc : matchConsistent g p rp = some (some a)) :
    a.ty.is_consistent = true ∧ a.isoMatches ≠ [] ∧
    ∀ m ∈ a.isoMatches, ∃ I ∈ g.isos, m.iso = some I.id ∧ Compatible p blocks I := by
  obtain ⟨cons, matched, hcons, hsel, hne, hlen, hmem, hty, hninc, _⟩ := matchConsistent_spec g p rp a hmc
  have hsub : ∀ x ∈ matched, x ∈ cons := by
    split at hsel
    · exact selectSpliced_sub p rp cons matched hsel
    · exact selectUnspliced_sub p rp cons matched hsel
  obtain ⟨_, _, _, _, hprof⟩ := constructProfiles_spec g p blocks pa rp hrp
  have spec := constructOverlapping_spec g.introns (g.start, g.stop) (fun a b => equal_ranges a b p.delta)
      (fun a b => overlaps_at_least a b p.minimal_intron_absence_overlap) p.delta (junctionsFromBlocks blocks)
      rp.region pa.extA pa.extT
  rw [← hprof] at spec
  have hones := dispatch_consistent_read_ones g rp hdisp spec.dom
  refine ⟨?_, ?_, ?_⟩
  · -- the type
    have hk : ∀ e ∈ (a.isoMatches.map (·.events)).flatMap (fun evs => evs.map (·.ty)),
        e.is_consistent = true ∨ e.is_minor_error = true ∨ e.is_major_inconsistency = true := by
      intro e he
      simp only [List.mem_flatMap, List.mem_map] at he
      obtain ⟨evs, ⟨m, hm, hmevs⟩, ev, hev, hevty⟩ := he
      obtain ⟨_, _, _, hkn⟩ := hmem m hm
      have := hkn ev (by rw [hmevs]; exact hev)
      rw [hevty] at this
      simp only [knownTy, Bool.or_eq_true] at this
      rcases this with (h | h) | h
      · exact Or.inl h
      · exact Or.inr (Or.inl h)
      · exact Or.inr (Or.inr h)
    rw [hty]
    unfold classifyAssignment
    rcases classify_known _ _ hk with h | h
    · exact h
    · rw [hty] at hninc; unfold classifyAssignment at hninc; rw [h] at hninc; cases hninc
  · intro e
    rw [e] at hlen
    exact hne (List.eq_nil_of_length_eq_zero hlen.symm)
  · intro m hm
    obtain ⟨I, hI, hiso, _⟩ := hmem m hm
    obtain ⟨hIg, hcont, _, heq⟩ := consistentIsoforms_mem g p rp cons hcons I (hsub I hI)
    exact ⟨I, hIg, hiso, candidate_compatible ms p blocks pa g rp hwf hg hrp hpa hones I hIg hcont heq⟩

/-- the same at the top level: an assignment produced on the `consistent` path -/
theorem assign_consistent_path_sound (ms : List Isoform) (p : Params) (blocks : List Iv) (pa : PolyA)
    (cj : Nat → Option (List Event)) (g : Gene) (rp : ReadProf) (a : Assignment)
    (hwf : WellFormed ms) (hg : Gene.fromModels ms = some g) (hrp : constructProfiles g p blocks pa = some rp)
    (hpa : PolyAOutside blocks pa) (h : assignToIsoform g p rp cj = some (a, .consistent)) :
    a.ty.is_consistent = true ∧ a.isoMatches ≠ [] ∧
    ∀ m ∈ a.isoMatches, ∃ I ∈ g.isos, m.iso = some I.id ∧ Compatible p blocks I := by
  unfold assignToIsoform at h
  split at h
  · simp at h
  · cases hn : noninformativeAssignment g rp <;> simp [hn] at h
  · cases hn : matchInconsistent g p rp cj <;> simp [hn] at h
  · rename_i hd1 hd2 hd3
    have hdisp : dispatch g rp = .consistent := by
      cases hd : dispatch g rp with
      | intergenic => exact absurd hd hd1
      | noninformative => exact absurd hd hd2
      | inconsistent => exact absurd hd hd3
      | consistent => rfl
      | fallback =>
        exfalso
        unfold dispatch at hd
        (repeat' split at hd) <;> simp at hd
    split at h
    · simp at h
    · rename_i a' hmc
      simp at h; subst h
      exact consistent_path_sound ms p blocks pa g rp a' hwf hg hrp hpa hdisp hmc
    · cases hn : matchInconsistent g p rp cj <;> simp [hn] at h

/-! ### C01, clause "unique to T when T is the only compatible isoform" -/

/-- `unique_when_only`: if T is the only structurally compatible isoform, an assignment produced by the consistent
    path reports exactly T with type unique or unique_minor_difference -/
theorem unique_when_only (ms : List Isoform) (p : Params) (blocks : List Iv) (pa : PolyA) (g : Gene) (rp : ReadProf)
    (a : Assignment) (T : IsoInfo)
    (hwf : WellFormed ms) (hg : Gene.fromModels ms = some g) (hrp : constructProfiles g p blocks pa = some rp)
    (hpa : PolyAOutside blocks pa) (hdisp : dispatch g rp = .consistent)
    (hmc : matchConsistent g p rp = some (some a))
    (honly : ∀ I ∈ g.isos, Compatible p blocks I → I = T) :
    (a.ty = .unique ∨ a.ty = .unique_minor_difference) ∧
    ∃ m, a.isoMatches = [m] ∧ m.iso = some T.id := by
  obtain ⟨hcons_ty, _, hall⟩ := consistent_path_sound ms p blocks pa g rp a hwf hg hrp hpa hdisp hmc
  obtain ⟨cons, matched, hcons, hsel, hne, hlen, hmem, hty, _, _⟩ := matchConsistent_spec g p rp a hmc
  -- every candidate is T
  obtain ⟨_, _, _, _, hprof⟩ := constructProfiles_spec g p blocks pa rp hrp
  have spec := constructOverlapping_spec g.introns (g.start, g.stop) (fun a b => equal_ranges a b p.delta)
      (fun a b => overlaps_at_least a b p.minimal_intron_absence_overlap) p.delta (junctionsFromBlocks blocks)
      rp.region pa.extA pa.extT
  rw [← hprof] at spec
  have hones := dispatch_consistent_read_ones g rp hdisp spec.dom
  have hT : ∀ I ∈ cons, I = T := by
    intro I hI
    obtain ⟨hIg, hcont, _, heq⟩ := consistentIsoforms_mem g p rp cons hcons I hI
    exact honly I hIg (candidate_compatible ms p blocks pa g rp hwf hg hrp hpa hones I hIg hcont heq)
  -- the candidate list is a sublist of the isoform list, whose ids are pairwise distinct: here it suffices that
  -- the selection functions keep a list of copies of T as it is when it has at most one element; otherwise they
  -- return a sub-collection, all of whose members are T
  have hsub : ∀ x ∈ matched, x ∈ cons := by
    split at hsel
    · exact selectSpliced_sub p rp cons matched hsel
    · exact selectUnspliced_sub p rp cons matched hsel
  -- the reported matches all carry T's id
  have hids : ∀ m ∈ a.isoMatches, m.iso = some T.id := by
    intro m hm
    obtain ⟨I, hI, hiso, _⟩ := hmem m hm
    rw [hT I (hsub I hI)] at hiso; exact hiso
  -- type: consistent, and ambiguous only with more than one match
  have hcls := classify_ambiguity (decide ((a.isoMatches.map (·.events)).length > 1))
    ((a.isoMatches.map (·.events)).flatMap (fun evs => evs.map (·.ty)))
  by_cases hone : a.isoMatches.length = 1
  · have hamb : decide ((a.isoMatches.map (·.events)).length > 1) = false := by simp [hone]
    rw [hamb] at hcls
    have h5 := hcls.2 rfl
    have htyeq : a.ty = classifyEvents false ((a.isoMatches.map (·.events)).flatMap (fun evs => evs.map (·.ty))) := by
      rw [hty]; unfold classifyAssignment; rw [hamb]
    rw [← htyeq] at h5
    constructor
    · rcases h5 with h | h | h | h | h
      · exact Or.inl h
      · exact Or.inr h
      · rw [h] at hcons_ty; exact absurd hcons_ty (by decide)
      · rw [h] at hcons_ty; exact absurd hcons_ty (by decide)
      · rw [h] at hcons_ty; exact absurd hcons_ty (by decide)
    · match hm : a.isoMatches, hone with
      | [m], _ => exact ⟨m, rfl, hids m (by rw [hm]; simp)⟩
  · -- more than one match would need more than one candidate isoform; the candidates are a sublist of the isoform
    -- list (pairwise distinct ids) and all of them are T
    exfalso
    apply hone
    have hcl : cons.length ≤ 1 := cons_length_le_one ms g hg p rp cons hcons T hT
    have hmc' : matched = cons := by
      split at hsel
      · exact selectSpliced_small p rp cons matched hsel hcl
      · exact selectUnspliced_small p rp cons matched hsel hcl
    have hpos : 0 < matched.length := List.length_pos_iff.mpr hne
    rw [hmc'] at hlen hpos
    omega

end IsoVerif.Props.C01Path
