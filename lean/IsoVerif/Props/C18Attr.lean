/-
C18 — "the Canonical attribute of a transcript model ..." as it is PRINTED: the transcript line of the output GTFs is
`gene_id; transcript_id;` + the model's own `additional_info` + the attributes `GeneInfo.set_gene_attributes` copies from
the reference transcript with the same id.  When the reference is itself an IsoQuant annotation written with
`--check_canonical`, the reference transcript carries a `Canonical` attribute (possibly stale: other assembly, older
version).  The property needs the printed line to carry exactly ONE `Canonical` attribute, the recomputed one.

The skip list is the GENERATED table `TRANSCRIPT_ATTR_SKIP` (IsoVerif/Gen/GeneAttributes.lean, re-extracted from
src/gene_info.py on every run); the behaviour before `Canonical` entered it is kept as `transcriptSkipOrig` with
`canonical_attr_orig_witness`.
-/
import IsoVerif.Props.C18
import IsoVerif.Lemmas.CanonicalAttr

namespace IsoVerif.Props.C18Attr
open IsoVerif.Gen IsoVerif.Model IsoVerif.Model.C18 IsoVerif.Lemmas.C18 IsoVerif.Props.C18

/-! ### the generated tables -/

/-- the transcript-level skip list of `set_gene_attributes` is the literal list below: the ids, `level`, and the two
    attributes the printer writes itself, `exons` and `Canonical` -/
theorem skip_tables_literal :
    TRANSCRIPT_ATTR_SKIP = ["transcript_id", "gene_id", "ID", "level", "exons", "Canonical", "Parent"] ∧
    CANONICAL_KEY = "Canonical" ∧ EXONS_KEY = "exons" := by
  decide

/-- every key the printer writes itself on a transcript line is in the skip list -/
theorem printer_keys_skipped :
    ∀ k ∈ ["gene_id", "transcript_id", CANONICAL_KEY, EXONS_KEY], TRANSCRIPT_ATTR_SKIP.contains k = true := by
  decide

/-! ### what is copied from the reference -/

/-- declarative reading of the copy loop (no restatement of the loop): an item `k "v";` is appended to the transcript
    line iff `k` is not in the skip list and `v` is the FIRST value the reference transcript has for `k` -/
theorem copied_attrs_spec (skip : List String) (ref : RefAttrs) (k v : String) :
    (k, v) ∈ copyLoop skip ref ↔ skip.contains k = false ∧ ∃ vs, (k, v :: vs) ∈ ref :=
  copyLoop_mem skip ref k v

/-! ### exactly one Canonical attribute, the recomputed one -/

/-- **canonical_attr_unique** (full strength): with `--check_canonical`, for every reachable memo state (any models /
    reads processed before), every model whose `additional_info` does not yet hold the key (a known model — its
    `additional_info` is a fresh `OrderedDict` in both passes — or a novel model of the per-locus pass, with or without
    `similar_reference_id` / `alternatives`) and EVERY reference attribute list (none, one or several `Canonical` values,
    whatever they say), the printed transcript line carries exactly one `Canonical` attribute and its value is the pure
    flag of the model's exons and strand. -/
theorem canonical_attr_unique {g : GeneRef} {σ : CanonMemo} (h : Reachable g σ) (m : PModel) (ref : Option RefAttrs)
    (href : g.refRegion ≠ []) (hfresh : checkAdditional m.info CANONICAL_KEY = false) :
    attrValues (printTranscriptLine TRANSCRIPT_ATTR_SKIP true g m ref σ).1 CANONICAL_KEY = [pureFlag g m.exons m.strand] ∧
    Reachable g (printTranscriptLine TRANSCRIPT_ATTR_SKIP true g m ref σ).2 := by
  have he : g.refRegion.isEmpty = false := by
    cases hg : g.refRegion with
    | nil => exact absurd hg href
    | cons _ _ => rfl
  have hline : ∀ m' : PModel, attrValues (transcriptLineAttrs TRANSCRIPT_ATTR_SKIP m' ref) CANONICAL_KEY
      = attrValues m'.info CANONICAL_KEY :=
    fun m' => line_values_of_skipped_key _ m' ref CANONICAL_KEY (by decide) (by decide) (by decide) (by decide)
  have hset : ∀ v, attrValues (setAttr m.info CANONICAL_KEY v) CANONICAL_KEY = [v] := by
    intro v
    rw [setAttr_fresh hfresh, attrValues_append, attrValues_nil_of_check hfresh, attrValues_cons_eq]
    simp [attrValues]
  unfold printTranscriptLine addCanonicalInfoForModelP pureFlag
  simp only [he, hfresh, Bool.false_eq_true, if_false, if_true]
  by_cases hj : junctionsFromBlocks m.exons = []
  · simp only [hj, List.length_nil, if_true]
    exact ⟨by rw [hline, hset], h⟩
  · have hl : ¬ (junctionsFromBlocks m.exons).length = 0 := by
      intro h0; exact hj (List.eq_nil_of_length_eq_zero h0)
    simp only [hl, hj, if_false]
    exact ⟨by rw [hline, hset, canonical_pure h], Reachable.query σ _ _ h⟩

/-- the same against the FASTA: when the gene info holds a window of the chromosome (per-locus pass: the read cluster /
    the widened gene span; extended-annotation pass: the whole chromosome) that contains the model's introns, the single
    printed value is the flag of a look-up on the whole chromosome — wherever the window ends -/
theorem canonical_attr_unique_chromosome (chr : Seq) (start end_ : Int) {σ : CanonMemo}
    (h : Reachable (setReferenceSequence chr start end_).1 σ) (m : PModel) (ref : Option RefAttrs)
    (hs : 1 ≤ start) (href : (setReferenceSequence chr start end_).1.refRegion ≠ [])
    (hfresh : checkAdditional m.info CANONICAL_KEY = false)
    (hin : ∀ it ∈ junctionsFromBlocks m.exons, start ≤ it.1 ∧ it.1 + 1 ≤ end_ ∧ start < it.2 ∧ it.2 ≤ end_) :
    attrValues (printTranscriptLine TRANSCRIPT_ATTR_SKIP true (setReferenceSequence chr start end_).1 m ref σ).1 CANONICAL_KEY
      = [pureFlag ⟨chr, 1⟩ m.exons m.strand] := by
  rw [(canonical_attr_unique h m ref href hfresh).1]
  unfold pureFlag
  rw [(flag_independent_of_region chr start end_ (junctionsFromBlocks m.exons) m.strand hs hin).1]

/-- a model that already carries the attribute once (`OrderedDict`: a key occurs once) — a novel model in the
    extended-annotation pass, dumped once already by the per-locus pass — is printed with exactly that one, with or
    without `--check_canonical`, whatever the reference says -/
theorem canonical_attr_kept (check : Bool) (g : GeneRef) (σ : CanonMemo) (m : PModel) (ref : Option RefAttrs) (v : String)
    (hv : attrValues m.info CANONICAL_KEY = [v]) :
    attrValues (printTranscriptLine TRANSCRIPT_ATTR_SKIP check g m ref σ).1 CANONICAL_KEY = [v] ∧
    (printTranscriptLine TRANSCRIPT_ATTR_SKIP check g m ref σ).2 = σ := by
  have hc : checkAdditional m.info CANONICAL_KEY = true := check_of_attrValues (by rw [hv]; simp)
  have hline := line_values_of_skipped_key TRANSCRIPT_ATTR_SKIP m ref CANONICAL_KEY (by decide) (by decide) (by decide) (by decide)
  unfold printTranscriptLine addCanonicalInfoForModelP
  cases check with
  | false => exact ⟨by simp only [Bool.false_eq_true, if_false]; rw [hline, hv], by simp⟩
  | true =>
    simp only [hc, if_true]
    split <;> exact ⟨by rw [hline, hv], rfl⟩

/-- without `--check_canonical` (or for a locus without reference window) a model that does not carry the attribute is
    printed WITHOUT any `Canonical` attribute: a value of the reference is never passed through unchecked -/
theorem canonical_attr_absent_unchecked (check : Bool) (g : GeneRef) (σ : CanonMemo) (m : PModel) (ref : Option RefAttrs)
    (hfresh : checkAdditional m.info CANONICAL_KEY = false) (hoff : check = false ∨ g.refRegion = []) :
    attrValues (printTranscriptLine TRANSCRIPT_ATTR_SKIP check g m ref σ).1 CANONICAL_KEY = [] := by
  have hline := line_values_of_skipped_key TRANSCRIPT_ATTR_SKIP m ref CANONICAL_KEY (by decide) (by decide) (by decide) (by decide)
  unfold printTranscriptLine addCanonicalInfoForModelP
  rcases hoff with rfl | hg
  · simp only [Bool.false_eq_true, if_false]
    rw [hline, attrValues_nil_of_check hfresh]
  · cases check with
    | false => simp only [Bool.false_eq_true, if_false]; rw [hline, attrValues_nil_of_check hfresh]
    | true => simp only [hg, List.isEmpty_nil, if_true]; rw [hline, attrValues_nil_of_check hfresh]

/-- a whole storage (`add_canonical_info` then `dump`): every line of a storage of fresh models carries exactly its own
    pure flag — independent of the other models of the storage, of their order and of their reference attributes -/
theorem storage_canonical_attr_unique (g : GeneRef) (href : g.refRegion ≠ []) :
    ∀ (ms : List (PModel × Option RefAttrs)) (σ : CanonMemo), Reachable g σ →
      (∀ m ∈ ms, checkAdditional m.1.info CANONICAL_KEY = false) →
      (printStorage TRANSCRIPT_ATTR_SKIP true g ms σ).1.map (attrValues · CANONICAL_KEY)
        = ms.map (fun m => [pureFlag g m.1.exons m.1.strand]) ∧
      Reachable g (printStorage TRANSCRIPT_ATTR_SKIP true g ms σ).2 := by
  intro ms
  induction ms with
  | nil => intro σ h _; exact ⟨rfl, h⟩
  | cons m rest ih =>
    intro σ h hf
    have hm := canonical_attr_unique h m.1 m.2 href (hf m (by simp))
    have := ih _ hm.2 (fun m' hm' => hf m' (by simp [hm']))
    simp only [printStorage, List.map_cons]
    exact ⟨by rw [hm.1, this.1], this.2⟩

/-- the `exons` attribute likewise: exactly one, the number of exon blocks of the model, whatever the reference says -/
theorem exons_attr_unique (check : Bool) (g : GeneRef) (σ : CanonMemo) (m : PModel) (ref : Option RefAttrs)
    (hfresh : checkAdditional m.info EXONS_KEY = false) :
    attrValues (printTranscriptLine TRANSCRIPT_ATTR_SKIP check g m ref σ).1 EXONS_KEY = [toString m.exons.length] := by
  have key : ∀ m' : PModel, checkAdditional m'.info EXONS_KEY = false →
      attrValues (transcriptLineAttrs TRANSCRIPT_ATTR_SKIP m' ref) EXONS_KEY = [toString m'.exons.length] := by
    intro m' hf
    have hcop : ∀ r, attrValues (copyLoop TRANSCRIPT_ATTR_SKIP r) EXONS_KEY = [] :=
      fun r => attrValues_copyLoop_skipped _ r _ (by decide)
    have hg1 : ("gene_id", m'.geneId).1 ≠ EXONS_KEY := show "gene_id" ≠ EXONS_KEY by decide
    have hg2 : ("transcript_id", m'.transcriptId).1 ≠ EXONS_KEY := show "transcript_id" ≠ EXONS_KEY by decide
    cases ref with
    | none =>
      simp only [transcriptLineAttrs, hf, Bool.false_eq_true, if_false, List.append_nil]
      rw [attrValues_append, attrValues_cons_ne _ _ _ hg1, attrValues_cons_ne _ _ _ hg2,
        setAttr_fresh hf, attrValues_append, attrValues_nil_of_check hf, attrValues_cons_eq]
      simp [attrValues]
    | some r =>
      simp only [transcriptLineAttrs, hf, Bool.false_eq_true, if_false]
      rw [attrValues_append, attrValues_append, attrValues_cons_ne _ _ _ hg1, attrValues_cons_ne _ _ _ hg2,
        setAttr_fresh hf, attrValues_append, attrValues_nil_of_check hf, attrValues_cons_eq, hcop]
      simp [attrValues]
  have hother : ∀ v, checkAdditional (setAttr m.info CANONICAL_KEY v) EXONS_KEY = false := by
    intro v
    cases hc : checkAdditional (setAttr m.info CANONICAL_KEY v) EXONS_KEY with
    | false => rfl
    | true =>
      have h1 := attrValues_setAttr_other m.info CANONICAL_KEY v EXONS_KEY (by decide)
      rw [attrValues_nil_of_check hfresh] at h1
      have : attrValues (setAttr m.info CANONICAL_KEY v) EXONS_KEY ≠ [] := by
        unfold checkAdditional at hc
        rw [List.any_eq_true] at hc
        obtain ⟨e, he, hk⟩ := hc
        unfold attrValues
        intro hnil
        rw [List.map_eq_nil_iff, List.filter_eq_nil_iff] at hnil
        exact hnil e he hk
      exact absurd h1 this
  unfold printTranscriptLine addCanonicalInfoForModelP
  cases check with
  | false => simp only [Bool.false_eq_true, if_false]; exact key m hfresh
  | true =>
    simp only [if_true]
    split
    · exact key m hfresh
    · split
      · exact key m hfresh
      · split
        · exact key _ (hother _)
        · exact key _ (hother _)

/-! ### the behaviour before `Canonical` entered the skip list -/

/-- reference transcript `T` (1-4, 15-18 on `AAAAGTCCCCCCAGTTTT`, intron (5,14) GT..AG, strand +) as an earlier
    `--check_canonical` run wrote it, its flag falsified -/
def exRef : RefAttrs := [("gene_id", ["G"]), ("transcript_id", ["T"]), ("Canonical", ["False"]), ("exons", ["2"])]
def exModel : PModel := { geneId := "G", transcriptId := "T", exons := [(1, 4), (15, 18)], strand := .plus, info := [] }

/-- **canonical_attr_orig_witness** (the defect; replayed on the real `set_gene_attributes` / `GFFPrinter.dump` by the
    oracle, `WITNESSES`): with the skip list that lacks `Canonical` the line is
    `... Canonical "True"; exons "2"; Canonical "False";` — two attributes that contradict each other, the last one
    stale; with the generated list it carries the recomputed one only -/
theorem canonical_attr_orig_witness :
    (printTranscriptLine transcriptSkipOrig true ⟨witnessSeq, 1⟩ exModel (some exRef) []).1 =
      [("gene_id", "G"), ("transcript_id", "T"), ("Canonical", "True"), ("exons", "2"), ("Canonical", "False")] ∧
    attrValues (printTranscriptLine transcriptSkipOrig true ⟨witnessSeq, 1⟩ exModel (some exRef) []).1 CANONICAL_KEY
      = ["True", "False"] ∧
    (printTranscriptLine TRANSCRIPT_ATTR_SKIP true ⟨witnessSeq, 1⟩ exModel (some exRef) []).1 =
      [("gene_id", "G"), ("transcript_id", "T"), ("Canonical", "True"), ("exons", "2")] := by
  decide

/-! ### non-vacuity -/

-- the hypotheses of `canonical_attr_unique` on the concrete line: reachable non-empty memo, region, fresh model, a
-- reference with a (false) Canonical value; the conclusion is the non-trivial value "True"
example : Reachable ⟨witnessSeq, 1⟩ (checkSites ⟨witnessSeq, 1⟩ [(5, 14)] .minus []).2 ∧
    (⟨witnessSeq, 1⟩ : GeneRef).refRegion ≠ [] ∧ checkAdditional exModel.info CANONICAL_KEY = false ∧
    pureFlag ⟨witnessSeq, 1⟩ exModel.exons exModel.strand = "True" ∧
    attrValues (copyLoop transcriptSkipOrig exRef) CANONICAL_KEY = ["False"] :=
  ⟨Reachable.query [] _ _ Reachable.fresh, by decide, by decide, by decide, by decide⟩

-- a novel model with model-constructor attributes is fresh as well; one that was dumped before meets `canonical_attr_kept`
example : checkAdditional [("similar_reference_id", "T"), ("alternatives", "x")] CANONICAL_KEY = false ∧
    attrValues [("similar_reference_id", "T"), ("Canonical", "False"), ("exons", "2")] CANONICAL_KEY = ["False"] := by
  decide

-- the window form: window 3..1000 of the 18-base contig
example : (1 : Int) ≤ 3 ∧ (setReferenceSequence witnessSeq 3 1000).1.refRegion ≠ [] ∧
    (∀ it ∈ junctionsFromBlocks exModel.exons, (3 : Int) ≤ it.1 ∧ it.1 + 1 ≤ 1000 ∧ 3 < it.2 ∧ it.2 ≤ 1000) := by
  decide

end IsoVerif.Props.C18Attr
