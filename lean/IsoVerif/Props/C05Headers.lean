/-
C05 / C12 (growth) — files of one experiment with DIFFERENT headers (a part that does not list the sequence, parts that
give it different lengths) and a reference FASTA record shorter than the headers say: every alignment of every file is
still forwarded, with the index of its file, in both memory modes.

Model: `Model/ChromHeaders.lean` (`get_chromosome_length`, `_fetch`) over `Model/RegionsMulti.lean`.
-/
import IsoVerif.Model.ChromHeaders
import IsoVerif.Props.C05Multi

namespace IsoVerif.Props.C05Headers
open IsoVerif.Gen IsoVerif.Model IsoVerif.Model.Regions IsoVerif.Model.RegionsMulti
open IsoVerif.Lemmas.Regions IsoVerif.Lemmas.RegionsMulti

theorem foldl_max_ge_init (t : List Int) (a : Int) : a ≤ t.foldl max a := by
  induction t generalizing a with
  | nil => simp
  | cons b t ih =>
    simp only [List.foldl_cons]
    have := ih (max a b)
    omega

theorem foldl_max_ge_mem (t : List Int) (a x : Int) (hx : x ∈ t) : x ≤ t.foldl max a := by
  induction t generalizing a with
  | nil => cases hx
  | cons b t ih =>
    simp only [List.foldl_cons]
    rcases List.mem_cons.1 hx with rfl | hx
    · have := foldl_max_ge_init t (max a x)
      omega
    · exact ih (max a b) hx

/-- **chromLength_ge_listed**: the scan interval reaches the end of the sequence as EVERY file that lists it declares it -/
theorem chromLength_ge_listed (fs : List HFile) (f : HFile) (hf : f ∈ fs) (l : Int) (hl : f.len = some l) :
    l ≤ chromLength fs := by
  have hm : l ∈ listedLengths fs := List.mem_filterMap.2 ⟨f, hf, hl⟩
  unfold chromLength
  cases hll : listedLengths fs with
  | nil => rw [hll] at hm; cases hm
  | cons a t =>
    rw [hll] at hm
    rcases List.mem_cons.1 hm with rfl | hm
    · exact foldl_max_ge_init t l
    · exact foldl_max_ge_mem t a l hm

/-- the input domain: every file coordinate-sorted; every record lies on a sequence its OWN header lists, inside the length
    its own header gives (a BAM record cannot be written otherwise) and has at least one reference base -/
def ValidHeaders (fs : List HFile) : Prop :=
  (∀ f, f ∈ fs → SortedByStart f.recs) ∧
  ∀ f, f ∈ fs → ∀ a, a ∈ f.recs → ∃ l, f.len = some l ∧ 0 ≤ a.start ∧ a.start < a.stop ∧ a.stop ≤ l

theorem validPlain_of_headers (fs : List HFile) (hv : ValidHeaders fs) :
    Props.C05Multi.ValidPlain (fs.map HFile.visible) (chromLength fs) := by
  constructor
  · intro g hg
    obtain ⟨f, hf, rfl⟩ := List.mem_map.1 hg
    cases hl : f.len with
    | none => simp [HFile.visible, hl, SortedByStart]
    | some l => simpa [HFile.visible, hl] using hv.1 f hf
  · intro a ha
    obtain ⟨g, hg, hag⟩ := List.mem_flatten.1 ha
    obtain ⟨f, hf, rfl⟩ := List.mem_map.1 hg
    cases hl : f.len with
    | none => simp [HFile.visible, hl] at hag
    | some l =>
      have har : a ∈ f.recs := by simpa [HFile.visible, hl] using hag
      obtain ⟨l', hl', h0, h1, h2⟩ := hv.2 f hf a har
      have := chromLength_ge_listed fs f hf l' hl'
      omega

/-- **headers_every_alignment_forwarded**: whatever the headers of the other files say about the sequence (another length,
    not listed at all) and whatever the length of the FASTA record is, every record of every file is handed to
    `process_alignments_in_region` for a region it overlaps, carrying the index of its file, in either memory mode. -/
theorem headers_every_alignment_forwarded (m : Mode) (fs : List HFile) (fasta : Option Int) (hv : ValidHeaders fs) :
    ∃ out, collectHeaders m fs fasta = some out ∧
      ∀ (i : Nat) (f : HFile), fs[i]? = some f → ∀ a, a ∈ f.recs →
        ∃ p, p ∈ out ∧ (i, a) ∈ p.2 ∧ overlaps p.1 a.iv = true := by
  obtain ⟨out, hout, hfw⟩ :=
    Props.C05Multi.multi_every_alignment_forwarded_files m (fs.map HFile.visible) (chromLength fs) (validPlain_of_headers fs hv)
  refine ⟨out, hout, ?_⟩
  intro i f hfi a ha
  obtain ⟨l, hl, _⟩ := hv.2 f (List.mem_of_getElem? hfi) a ha
  have hvis : (fs.map HFile.visible)[i]? = some f.recs := by
    simp [List.getElem?_map, hfi, HFile.visible, hl]
  exact hfw i f.recs hvis a ha

/-- **headers_as_common_header**: with records inside their own headers, the collector on files with DIFFERENT headers
    (other lengths, sequence not listed) forwards exactly what it forwards on the same record lists under one common header
    of any sufficient length `L` — the input class of the C12 partition theorems (`Props/C12.lean`, one shared `L`), so a
    partition into parts with other headers is covered by them. -/
theorem headers_as_common_header (m : Mode) (fs : List HFile) (fasta : Option Int) (hv : ValidHeaders fs) (L : Int)
    (hL : ∀ f, f ∈ fs → ∀ a, a ∈ f.recs → a.stop ≤ L) :
    collectHeaders m fs fasta = collectFiles m (fs.map HFile.visible) L := by
  have h1 := validPlain_of_headers fs hv
  have h2 : Props.C05Multi.ValidPlain (fs.map HFile.visible) L := by
    refine ⟨h1.1, ?_⟩
    intro a ha
    have h3 := h1.2 a ha
    obtain ⟨g, hg, hag⟩ := List.mem_flatten.1 ha
    obtain ⟨f, hf, rfl⟩ := List.mem_map.1 hg
    have har : a ∈ f.recs := by
      cases hl : f.len with
      | none => simp [HFile.visible, hl] at hag
      | some l => simpa [HFile.visible, hl] using hag
    have := hL f hf a har
    omega
  unfold collectHeaders collectFiles collectM
  rw [scan_eq _ (validFiles_tag _ _ h1.1 h1.2), scan_eq _ (validFiles_tag _ _ h2.1 h2.2)]

/-- **fasta_length_irrelevant**: the forwarded regions do not depend on the length of the reference record -/
theorem fasta_length_irrelevant (m : Mode) (fs : List HFile) (fa fb : Option Int) :
    collectHeaders m fs fa = collectHeaders m fs fb := rfl

/-- **unlisted_file_is_empty_file**: a file whose header lacks the sequence behaves as a file without records on it: the
    other files lose nothing (`_fetch` handles ValueError per file) -/
theorem unlisted_file_is_empty_file (m : Mode) (pre post : List HFile) (recs : List Aln) (fasta : Option Int) :
    collectHeaders m (pre ++ ⟨none, recs⟩ :: post) fasta = collectHeaders m (pre ++ ⟨none, []⟩ :: post) fasta := by
  simp [collectHeaders, chromLength, listedLengths, HFile.visible, List.filterMap_append]

/-! ### non-vacuity -/

/-- header 100 / not listed / header 40, FASTA record of 30 bases, records beyond base 30 -/
def exH : List HFile :=
  [⟨some 100, [⟨1, 5, false, false, true, 60, 0⟩, ⟨70, 90, false, false, true, 60, 1⟩]⟩, ⟨none, []⟩,
   ⟨some 40, [⟨2, 4, true, false, true, 0, 2⟩, ⟨33, 39, false, false, true, 60, 3⟩]⟩]

example : ValidHeaders exH := by
  constructor
  · intro f hf
    simp only [exH, List.mem_cons, List.not_mem_nil, or_false] at hf
    rcases hf with rfl | rfl | rfl <;> simp [SortedByStart]
  · intro f hf a ha
    simp only [exH, List.mem_cons, List.not_mem_nil, or_false] at hf
    rcases hf with rfl | rfl | rfl
    · simp only [List.mem_cons, List.not_mem_nil, or_false] at ha
      rcases ha with rfl | rfl <;> exact ⟨100, rfl, by decide, by decide, by decide⟩
    · cases ha
    · simp only [List.mem_cons, List.not_mem_nil, or_false] at ha
      rcases ha with rfl | rfl <;> exact ⟨40, rfl, by decide, by decide, by decide⟩

example : chromLength exH = 100 := by decide

example : ∀ f, f ∈ exH → ∀ a, a ∈ f.recs → a.stop ≤ 200 := by decide

end IsoVerif.Props.C05Headers
