/-
C12, end to end — the same alignment records supplied as any partition into 1..n coordinate-sorted BAM files of one
experiment give the same multiset of retained assignment records and the same gene / transcript count and TPM tables.

The modelled pipeline (Model/BamPipeline.lean, `endToEnd`) composes the merged models of
  C12  k-way merge → region clusters → (sub-)regions → re-fetch per region            (Model/BamMerge.lean)
  C08  per-read lists (both memory modes) → `MultimapResolver.resolve` (take_best) → verdict files →
       `ReadAssignmentLoader.get_next` (suspended skipped)                              (Model/Resolver.lean)
  C02  ungrouped gene / transcript counters → `dump` → `merge_counts` → `convert_counts_to_tpm`  (Model/Counter.lean)
with the glue of `dataset_processor.py` (chromosome stamp, assignment ids, `count_unaligned_reads`).
PARAMETERS (arbitrary functions, nothing assumed beyond what is written in the hypotheses): `split_coverage_regions`
(`SplitFn`, C05) and the per-alignment function `assign c : region → bam index → alignment → Option PRec`
(filters, profiles, `LongReadAssigner`, exon correction ...), applied per alignment as in Props/C12.lean.

Uses C08's `priority_candidates` / `losers_never_loaded` / `memory_paths_agree` / `winner_perm` and C02's
`run_counts` / `run_confirmed` / `run_stats` / `dump_row`; `counter_perm_invariant` is new.
-/
import IsoVerif.Model.BamPipeline
import IsoVerif.Lemmas.C12Pipeline
import IsoVerif.Lemmas.C12Downstream
import IsoVerif.Lemmas.CounterPerm
import IsoVerif.Props.C12

namespace IsoVerif.Props.C12EndToEnd
open IsoVerif.Gen IsoVerif.Model.C12 IsoVerif.Model.Resolver IsoVerif.Model.C02
open IsoVerif.Lemmas.C12 IsoVerif.Lemmas.C02 IsoVerif.Lemmas.Resolver IsoVerif.Props.C12
open List

/-! ## 1. the intake: blocks -/

/-- the records of a chromosome are the concatenation of the blocks (one `process_alignments_in_region` call each) -/
theorem collect_is_flatten_of_blocks {R : Type} (split : SplitFn) (assign : Assign R) (files : List (List Aln)) :
    collect split assign files = (collectBlocks split assign files).flatten ∧
    collectMem split assign files = (collectBlocksMem split assign files).flatten :=
  ⟨collect_eq_flatten split assign files, collectMem_eq_flatten split assign files⟩

/-- the blocks are the per-alignment function mapped over what `forward_alignments` hands on (`forwarded` /
    `forwardedMem` of Model/BamMerge.lean, tied to the real `AlignmentCollector` by the `forwarded` correspondence) -/
theorem blocks_are_forwarded {R : Type} (split : SplitFn) (assign : Assign R) (files : List (List Aln)) :
    collectBlocks split assign files =
      (forwarded split files).map (fun se => se.2.filterMap (fun e => assign se.1 e.1 e.2)) ∧
    collectBlocksMem split assign files =
      (forwardedMem split files).map (fun se => se.2.filterMap (fun e => assign se.1 e.1 e.2)) := by
  constructor
  · simp only [collectBlocks, forwarded, List.map_flatMap, List.map_map, Function.comp_def]
    rfl
  · simp only [collectBlocksMem, forwardedMem, List.map_flatMap, List.map_map, Function.comp_def]

/-- **blocks_partition_invariant** (sharper than `records_multiset_invariant`): two ways of supplying the same
    alignments as coordinate-sorted files give the same SEQUENCE of blocks, corresponding blocks being permutations
    of each other — a different partition reorders records only inside one (sub-)region.  Both memory modes. -/
theorem blocks_partition_invariant {R : Type} (split : SplitFn) (assign : Assign R) (files1 files2 : List (List Aln))
    (s1 : ∀ f ∈ files1, SortedStart f) (s2 : ∀ f ∈ files2, SortedStart f)
    (wf : ∀ a ∈ files1.flatten, a.start < a.stop) (hp : files1.flatten.Perm files2.flatten)
    (hidx : ∀ r i j a, assign r i a = assign r j a) :
    Forall2 (fun b b' => b.Perm b') (collectBlocks split assign files1) (collectBlocks split assign files2) ∧
    Forall2 (fun b b' => b.Perm b') (collectBlocksMem split assign files1) (collectBlocksMem split assign files2) :=
  ⟨collectBlocks_forall2 split assign files1 files2 s1 s2 wf hp hidx,
   collectBlocksMem_forall2 split assign files1 files2 s1 s2 wf hp hidx⟩

/-! ## 2. the counters -/

/-- **counter_perm_invariant**: for every order of the calls on a counter (fresh or running), the run raises iff
    the other one does, and the dumped tables (rows in order, printed values, `__ambiguous`, `__no_feature`,
    `__not_aligned`, `__usable`) are equal.  `le` = a total order of the feature ids. -/
theorem counter_perm_invariant {F : Type} [DecidableEq F] (s : CountingStrategy) (lvl : Level) (le : F → F → Bool)
    (ho : TotalOrder le) (oz : Bool) (st0 : CState F) {es es' : List (Event F)} (hp : es.Perm es') :
    (IsoVerif.Model.C02.run s lvl st0 es).map (dump le oz) = (IsoVerif.Model.C02.run s lvl st0 es').map (dump le oz) :=
  counter_perm_invariant_aux s lvl le ho oz st0 hp

/-- the state itself, as far as `dump` can see it -/
theorem counter_state_perm_invariant {F : Type} [DecidableEq F] (s : CountingStrategy) (lvl : Level)
    (st0 : CState F) {es es' : List (Event F)} (hp : es.Perm es') :
    (IsoVerif.Model.C02.run s lvl st0 es = none ↔ IsoVerif.Model.C02.run s lvl st0 es' = none) ∧
    ∀ st st', IsoVerif.Model.C02.run s lvl st0 es = some st → IsoVerif.Model.C02.run s lvl st0 es' = some st' → StEq st st' :=
  run_perm s lvl st0 hp

/-! ## 3. resolver + loader on a stream -/

/-- **loaded_records_spec**: on a stream of stamped records without `suspended` inputs whose
    (assignment id, chromosome) pairs are pairwise different, in BOTH memory modes: resolution never raises, the loader
    of no chromosome raises, and what the loader hands on for chromosome `c` is, as a multiset, `specRecords c`:
    read by read, a read with one record keeps it, a read with several keeps the first record of every
    `__eq__`-class of `Winner` records (C08's priority classes), re-flagged — no position, no assignment id involved. -/
theorem loaded_records_spec (highMemory : Bool) (S : List PRec)
    (hU : (S.map (·.basic)).Pairwise (fun a b => ¬ (a.aid = b.aid ∧ a.chr = b.chr)))
    (hNS : NoSuspendedInput (S.map (·.basic))) :
    ∃ resolved, resolveStream highMemory (S.map (·.basic)) = some resolved ∧
      ∀ c, ∃ loaded, loadChr (verdictsFor c resolved) (S.filter (onChr c)) = some loaded ∧
        loaded.Perm (specRecords c S) := by
  obtain ⟨resolved, hres, hload⟩ := loadChr_spec highMemory S hU hNS
  exact ⟨resolved, hres, fun c => ⟨_, hload c, loadSpec_perm S hU c⟩⟩

/-- the assignment ids are invisible in `specRecords` -/
theorem assignment_ids_invisible (c : Nat) (S : List PRec) :
    (specRecords c S).map PRec.eraseAid = specRecords c (S.map PRec.eraseAid) := specRecords_eraseAid c S

/-! ## 4. downstream of the records -/

/-- **downstream_blockwise_invariant**: two record streams (per chromosome, cut into blocks) whose corresponding
    blocks are permutations of each other, numbered with ANY two injective assignment-id numberings, with the same
    total of unaligned reads: both runs raise or neither does, and then, chromosome by chromosome, the loaded records
    agree as multisets once the ids are forgotten, and the dumped gene and transcript tables, the merged tables
    (`__not_aligned` included) and the TPM tables are EQUAL.
    Hypotheses: `le` is a total order; no input record is `suspended`; `BlockDupOK`: inside one block two records
    that `BasicReadAssignment.__eq__` identifies (same read, chromosome, start, end, isoform set) are identical. -/
theorem downstream_blockwise_invariant (cfg : Config) (ho : TotalOrder cfg.le) (ids ids' : Nat → Nat → Nat)
    (hinj : ∀ c i j, ids c i = ids c j → i = j) (hinj' : ∀ c i j, ids' c i = ids' c j → i = j)
    (u u' : List Nat) (hu : countUnaligned u = countUnaligned u')
    (CB CB' : List (List (List PRec))) (hF : Forall2 (Forall2 (fun b b' => b.Perm b')) CB CB')
    (hNS : ∀ blocks ∈ CB, ∀ b ∈ blocks, ∀ p ∈ b, p.basic.atype ≠ .suspended)
    (hD : BlockDupOK (globalBlocks CB)) :
    OptRel OutEq (downstream cfg ids u (CB.map List.flatten)) (downstream cfg ids' u' (CB'.map List.flatten)) :=
  downstream_blocks_aux cfg ho ids ids' hinj hinj' u u' hu CB CB' hF hNS hD

/-! ## 5. end to end -/

/-- the exact condition under which the end-to-end statement is proved: inside one forwarded (sub-)region, two
    records that `__eq__` identifies are identical (after the chromosome stamp, ids forgotten).
    Without it the statement is false of the model: `bam_clause_witness`. -/
def NoConflictingDuplicates (cfg : Config) (split : SplitFn) (assign : Nat → Assign PRec)
    (genome : List (List (List Aln))) : Prop :=
  BlockDupOK (globalBlocks (blocksOf cfg split assign genome))

/-- **end_to_end_partition_invariant**.  For every experiment `g1` (per chromosome, the per-file record streams) and
    every other way `g2` of supplying the same alignment records as coordinate-sorted files (any number of files, any
    assignment of the records to files, chromosome by chromosome the same multiset), for every
    `split_coverage_regions` function and every per-alignment function that does not look at the bam index, in both
    memory modes, with any injective assignment-id numberings and the same total of unaligned reads: the modelled
    pipeline raises on both or on neither, and otherwise yields, chromosome by chromosome, the same multiset of
    retained assignment records (ids forgotten) and EQUAL gene / transcript count tables and TPM tables. -/
theorem end_to_end_partition_invariant (cfg : Config) (ho : TotalOrder cfg.le) (split : SplitFn)
    (assign : Nat → Assign PRec) (ids1 ids2 : Nat → Nat → Nat)
    (hinj1 : ∀ c i j, ids1 c i = ids1 c j → i = j) (hinj2 : ∀ c i j, ids2 c i = ids2 c j → i = j)
    (u1 u2 : List Nat) (hu : countUnaligned u1 = countUnaligned u2)
    (g1 g2 : List (List (List Aln)))
    (hs1 : ∀ files ∈ g1, ∀ f ∈ files, SortedStart f) (hs2 : ∀ files ∈ g2, ∀ f ∈ files, SortedStart f)
    (wf : ∀ files ∈ g1, ∀ a ∈ files.flatten, a.start < a.stop)
    (hp : Forall2 (fun f1 f2 => f1.flatten.Perm f2.flatten) g1 g2)
    (hidx : ∀ c r i j a, assign c r i a = assign c r j a)
    (hNS : ∀ c r i a p, assign c r i a = some p → p.basic.atype ≠ .suspended)
    (hD : NoConflictingDuplicates cfg split assign g1) :
    OptRel OutEq (endToEnd cfg split assign ids1 u1 g1) (endToEnd cfg split assign ids2 u2 g2) := by
  rw [endToEnd_eq, endToEnd_eq]
  apply downstream_blocks_aux cfg ho ids1 ids2 hinj1 hinj2 u1 u2 hu _ _ ?_ ?_ hD
  · -- block-wise permutation, chromosome by chromosome
    unfold blocksOf
    refine forall2_map _ _ (forall2_imp_mem (forall2_zipIdx hp 0) ?_) (fun a b hab => hab)
    rintro x x' hx hx' ⟨h1, h2⟩
    have hx1 : x.1 ∈ g1 := List.mem_of_getElem? (List.mem_zipIdx_iff_getElem?.mp hx)
    have hx2 : x'.1 ∈ g2 := List.mem_of_getElem? (List.mem_zipIdx_iff_getElem?.mp hx')
    rw [h2]
    split
    · exact collectBlocksMem_forall2 split _ _ _ (hs1 _ hx1) (hs2 _ hx2) (wf _ hx1) h1 (hidx x'.2)
    · exact collectBlocks_forall2 split _ _ _ (hs1 _ hx1) (hs2 _ hx2) (wf _ hx1) h1 (hidx x'.2)
  · intro blocks hb b hbb p hpb
    unfold blocksOf at hb
    obtain ⟨x, _, rfl⟩ := List.mem_map.mp hb
    have hm := mem_block_of_assign split (assign x.2) x.1
    split at hbb
    · obtain ⟨sub, h⟩ := hm.2 b hbb
      obtain ⟨i, a, ha⟩ := h p hpb
      exact hNS _ _ _ _ _ ha
    · obtain ⟨sub, h⟩ := hm.1 b hbb
      obtain ⟨i, a, ha⟩ := h p hpb
      exact hNS _ _ _ _ _ ha

/-- a condition on the per-alignment function alone (no reference to the files) that implies
    `NoConflictingDuplicates`: within one (sub-)region two alignments never yield `__eq__`-equal but different records -/
def AssignDupFree (assign : Nat → Assign PRec) : Prop :=
  ∀ c r i i' a a' p p', assign c r i a = some p → assign c r i' a' = some p' →
    eqP (p.stamp c 0) (p'.stamp c 0) = true → p.stamp c 0 = p'.stamp c 0

theorem noConflictingDuplicates_of_assign (cfg : Config) (split : SplitFn) (assign : Nat → Assign PRec)
    (genome : List (List (List Aln))) (h : AssignDupFree assign) : NoConflictingDuplicates cfg split assign genome := by
  intro b hb x hx y hy hxy
  simp only [globalBlocks, List.mem_flatMap, List.mem_map] at hb
  obtain ⟨z, hz, b0, hb0, rfl⟩ := hb
  have hz1 : z.1 ∈ blocksOf cfg split assign genome := List.mem_of_getElem? (List.mem_zipIdx_iff_getElem?.mp hz)
  have hz2 : (blocksOf cfg split assign genome)[z.2]? = some z.1 := List.mem_zipIdx_iff_getElem?.mp hz
  obtain ⟨px, hpx, rfl⟩ := List.mem_map.mp hx
  obtain ⟨py, hpy, rfl⟩ := List.mem_map.mp hy
  -- the block comes from chromosome z.2 of the genome
  unfold blocksOf at hz2
  rw [List.getElem?_map] at hz2
  cases hg : genome.zipIdx[z.2]? with
  | none => rw [hg] at hz2; cases hz2
  | some w =>
    rw [hg] at hz2
    simp only [Option.map_some, Option.some.injEq] at hz2
    have hw : w.2 = z.2 := by
      have := List.getElem?_zipIdx (l := genome) (i := 0) (j := z.2)
      rw [hg] at this
      cases hgg : genome[z.2]? with
      | none => rw [hgg] at this; cases this
      | some v => rw [hgg] at this; simp at this; rw [this]
    have hm := mem_block_of_assign split (assign w.2) w.1
    rw [← hz2] at hb0
    split at hb0
    · obtain ⟨sub, hs⟩ := hm.2 b0 hb0
      obtain ⟨i, a, ha⟩ := hs px hpx
      obtain ⟨i', a', ha'⟩ := hs py hpy
      rw [← hw]; rw [← hw] at hxy
      exact h _ _ _ _ _ _ _ _ ha ha' hxy
    · obtain ⟨sub, hs⟩ := hm.1 b0 hb0
      obtain ⟨i, a, ha⟩ := hs px hpx
      obtain ⟨i', a', ha'⟩ := hs py hpy
      rw [← hw]; rw [← hw] at hxy
      exact h _ _ _ _ _ _ _ _ ha ha' hxy

/-! ## 6. the clause of the property (`BamClause` of Props/C12.lean) for the modelled downstream -/

/-- the tables of a one-chromosome experiment as a function of the chromosome's record list -/
def tablesPost (cfg : Config) (ids : Nat → Nat → Nat) (u : List Nat) (l : List PRec) :
    Option (Part Nat × Part Nat × TpmTable Nat × TpmTable Nat) :=
  (downstream cfg ids u [l]).map (fun o => (o.geneCounts, o.transcriptCounts, o.geneTpm, o.transcriptTpm))

/-- **downstream_perm_invariant_partial** — the hypothesis `hpost` of `outputs_invariant_partial` for the modelled
    downstream (tables), for ARBITRARY permutations of the record list, under the condition that in the WHOLE list
    records that `__eq__` identifies are identical.  (Unconditionally it is false: `perm_witness`; the end-to-end
    theorem therefore goes through blocks, where the condition is only needed inside one (sub-)region.) -/
theorem downstream_perm_invariant_partial (cfg : Config) (ho : TotalOrder cfg.le) (ids : Nat → Nat → Nat)
    (hinj : ∀ c i j, ids c i = ids c j → i = j) (u : List Nat) (l l' : List PRec) (hp : l.Perm l')
    (hNS : ∀ p ∈ l, p.basic.atype ≠ .suspended)
    (hD : ∀ x ∈ l, ∀ y ∈ l, eqP (x.stamp 0 0) (y.stamp 0 0) = true → x.stamp 0 0 = y.stamp 0 0) :
    tablesPost cfg ids u l = tablesPost cfg ids u l' := by
  have h := downstream_blocks_aux cfg ho ids ids hinj hinj u u rfl [[l]] [[l']]
    (Forall2.cons (Forall2.cons hp Forall2.nil) Forall2.nil)
    (by
      intro blocks hb b hbb p hpb
      simp only [List.mem_singleton] at hb; subst hb
      simp only [List.mem_singleton] at hbb; subst hbb
      exact hNS p hpb)
    (by
      intro b hb x hx y hy hxy
      simp only [globalBlocks, List.zipIdx_cons, List.zipIdx_nil, List.flatMap_cons, List.flatMap_nil,
        List.map_cons, List.map_nil, List.append_nil, List.mem_singleton] at hb
      subst hb
      obtain ⟨px, hpx, rfl⟩ := List.mem_map.mp hx
      obtain ⟨py, hpy, rfl⟩ := List.mem_map.mp hy
      exact hD px hpx py hpy hxy)
  simp only [List.map_cons, List.map_nil, List.flatten_cons, List.flatten_nil, List.append_nil] at h
  exact optRel_tables h

/-- **bam_clause_end_to_end_partial**: `BamClause` (the full-strength clause of Props/C12.lean, one chromosome) for
    the modelled downstream — resolver, loader, counters, merge, TPM — proved for every `split_coverage_regions`
    function and every per-alignment function that ignores the bam index, yields no `suspended` record and is
    `AssignDupFree`.  What is missing for the unconditional clause is exactly `AssignDupFree`: see `bam_clause_witness`. -/
theorem bam_clause_end_to_end_partial (cfg : Config) (hmode : cfg.highMemory = false) (ho : TotalOrder cfg.le)
    (ids : Nat → Nat → Nat) (hinj : ∀ c i j, ids c i = ids c j → i = j) (u : List Nat)
    (split : SplitFn) (assign : Assign PRec)
    (hidx : ∀ r i j a, assign r i a = assign r j a)
    (hNS : ∀ r i a p, assign r i a = some p → p.basic.atype ≠ .suspended)
    (hdup : AssignDupFree (fun _ => assign)) :
    BamClause (tablesPost cfg ids u) split assign := by
  intro files1 files2 s1 s2 wf hp
  have h := end_to_end_partition_invariant cfg ho split (fun _ => assign) ids ids hinj hinj u u rfl
    [files1] [files2] (by simpa using s1) (by simpa using s2) (by simpa using wf)
    (Forall2.cons hp Forall2.nil) (fun _ => hidx) (fun _ => hNS)
    (noConflictingDuplicates_of_assign cfg split _ _ hdup)
  have e : ∀ files, endToEnd cfg split (fun _ => assign) ids u [files] = downstream cfg ids u [collect split assign files] := by
    intro files
    simp [endToEnd, hmode]
  rw [e, e] at h
  exact optRel_tables h

/-! ## 7. the condition is needed: witnesses -/

/-- one chromosome, transcript 1 of gene 10 (two introns) listed -/
def cfgW : Config :=
  { highMemory := false, geneStrategy := .unique_only, transcriptStrategy := .unique_only, le := natLe,
    norm := .simple, isStatLike := fun _ => false, completeGenes := fun _ => [10], completeTranscripts := fun _ => [1],
    mergeOrder := [0] }

def idsW : Nat → Nat → Nat := fun _ i => i
def splitW : SplitFn := fun r _ _ => [r]

def recW (r : Iv) (a : Aln) (nce rest : Nat) : PRec :=
  { basic := { aid := 0, readId := 0, chr := 0, start := a.start, stop := a.stop, region := r, multimapper := true,
               polyA := false, atype := .unique, gtype := .unique, penalty := 0, isoforms := [1], genes := [10] },
    isoMatches := [⟨some 10, some 1⟩], nCorrectedExons := nce, isoformIntrons := [(1, 2)], rest := rest }

/-- two secondary alignments of ONE read with the same start and end, both uniquely consistent with transcript 1:
    the record of alignment 1 has a spliced corrected alignment (3 exons), the record of alignment 2 an unspliced one.
    `__eq__` identifies them (same read, chromosome, start, end, isoforms) although they differ. -/
def assignW : Assign PRec := fun r _ a => some (recW r a (if a.tag = 1 then 3 else 1) a.tag)

def filesW1 : List (List Aln) := [[⟨10, 50, 1⟩], [⟨10, 50, 2⟩]]
def filesW2 : List (List Aln) := [[⟨10, 50, 2⟩], [⟨10, 50, 1⟩]]

/-- **bam_clause_witness**: `BamClause` is FALSE of the modelled downstream without `AssignDupFree`.  The same two
    alignment records in two files, file order swapped: the merger yields them in the other order (tie on start and
    end, broken by the bam index), `find_duplicates` keeps the first, so the retained record is the spliced one in one
    representation (transcript 1 confirmed: `1.00`) and the unspliced one in the other (zeroed: `0.00`). -/
theorem bam_clause_witness :
    (∀ r i j a, assignW r i a = assignW r j a) ∧ (∀ r i a p, assignW r i a = some p → p.basic.atype ≠ .suspended) ∧
    (tablesPost cfgW idsW [] (collect splitW assignW filesW1)).map (fun t => t.2.1.rows) = some [(1, 100)] ∧
    (tablesPost cfgW idsW [] (collect splitW assignW filesW2)).map (fun t => t.2.1.rows) = some [(1, 0)] ∧
    ¬ BamClause (tablesPost cfgW idsW []) splitW assignW := by
  have h1 : (tablesPost cfgW idsW [] (collect splitW assignW filesW1)).map (fun t => t.2.1.rows) = some [(1, 100)] := by
    decide +kernel
  have h2 : (tablesPost cfgW idsW [] (collect splitW assignW filesW2)).map (fun t => t.2.1.rows) = some [(1, 0)] := by
    decide +kernel
  refine ⟨fun _ _ _ _ => rfl, ?_, h1, h2, ?_⟩
  · intro r i a p h
    simp only [assignW, Option.some.injEq] at h
    subst h; simp [recW]
  · intro hc
    have := hc filesW1 filesW2 (by decide) (by decide) (by decide) (by decide)
    rw [this] at h1
    rw [h1] at h2
    exact absurd h2 (by decide)

/-- the same at the level of `hpost` (the hypothesis of `outputs_invariant_partial`): the two orders of the two
    records are a permutation of each other and give different tables -/
theorem perm_witness :
    (collect splitW assignW filesW1).Perm (collect splitW assignW filesW2) ∧
    tablesPost cfgW idsW [] (collect splitW assignW filesW1) ≠ tablesPost cfgW idsW [] (collect splitW assignW filesW2) := by
  constructor
  · have e1 : collect splitW assignW filesW1 = [recW (10, 49) ⟨10, 50, 1⟩ 3 1, recW (10, 49) ⟨10, 50, 2⟩ 1 2] := by
      decide +kernel
    have e2 : collect splitW assignW filesW2 = [recW (10, 49) ⟨10, 50, 2⟩ 1 2, recW (10, 49) ⟨10, 50, 1⟩ 3 1] := by
      decide +kernel
    rw [e1, e2]
    exact Perm.swap _ _ _
  · intro h
    have h1 := bam_clause_witness.2.2.1
    have h2 := bam_clause_witness.2.2.2.1
    rw [h, h2] at h1
    exact absurd h1 (by decide)

/-! ## 8. non-vacuity -/

/-- the record is a function of the alignment's coordinates (and the region) only -/
def assignOK : Assign PRec := fun r _ a => some (recW r a 3 0)

-- hypotheses of `bam_clause_end_to_end_partial` / `end_to_end_partition_invariant` are met ...
example : cfgW.highMemory = false ∧ TotalOrder cfgW.le ∧ (∀ c i j, idsW c i = idsW c j → i = j) ∧
    (∀ r i j a, assignOK r i a = assignOK r j a) ∧
    (∀ r i a p, assignOK r i a = some p → p.basic.atype ≠ .suspended) ∧ AssignDupFree (fun _ => assignOK) := by
  refine ⟨rfl, natLe_total, fun _ _ _ h => h, fun _ _ _ _ => rfl, ?_, ?_⟩
  · intro r i a p h
    simp only [assignOK, Option.some.injEq] at h
    subst h; simp [recW]
  · intro c r i i' a a' p p' h h' he
    simp only [assignOK, Option.some.injEq] at h h'
    subst h; subst h'
    simp only [eqP, recEq, PRec.stamp, recW, Bool.and_eq_true, beq_iff_eq] at he
    simp only [PRec.stamp, recW, he.1.1.2, he.1.2]

-- ... and both sides compute: the two representations give the same, non-trivial, tables (the duplicate is dropped,
-- the read counts once; `__not_aligned` is the total over the files) and the same retained record
example :
    (∀ f ∈ filesW1, SortedStart f) ∧ (∀ f ∈ filesW2, SortedStart f) ∧ (∀ a ∈ filesW1.flatten, a.start < a.stop) ∧
    filesW1.flatten.Perm filesW2.flatten ∧ countUnaligned [2, 1] = countUnaligned [3] ∧
    (endToEnd cfgW splitW (fun _ => assignOK) idsW [2, 1] [filesW1]).map
        (fun o => (o.transcriptCounts.rows, o.geneCounts.rows, o.geneCounts.notAligned))
      = some ([(1, 100)], [(10, 100)], 3) ∧
    (endToEnd cfgW splitW (fun _ => assignOK) idsW [3] [filesW2]).map
        (fun o => (o.transcriptCounts.rows, o.geneCounts.rows, o.geneCounts.notAligned))
      = some ([(1, 100)], [(10, 100)], 3) ∧
    (endToEnd cfgW splitW (fun _ => assignOK) idsW [2, 1] [filesW1]).map
        (fun o => o.chrs.map (fun c => c.records.map (fun p => (p.basic.atype, p.basic.aid)))) = some [[(.unique, 0)]] ∧
    (endToEnd cfgW splitW (fun _ => assignOK) idsW [3] [filesW2]).map
        (fun o => o.chrs.map (fun c => c.records.map (fun p => (p.basic.atype, p.basic.aid)))) = some [[(.unique, 0)]] := by
  refine ⟨by decide, by decide, by decide, by decide, by decide, by decide +kernel, by decide +kernel,
    by decide +kernel, by decide +kernel⟩

-- `counter_perm_invariant` on a concrete history and its reversal
example : (IsoVerif.Model.C02.run .with_ambiguous .transcript (CState.init [1, 2])
      [Event.read (some (recW (1, 9) ⟨1, 5, 0⟩ 3 0).toAssignment), Event.read none]).map (dump natLe true) =
    (IsoVerif.Model.C02.run .with_ambiguous .transcript (CState.init [1, 2])
      [Event.read none, Event.read (some (recW (1, 9) ⟨1, 5, 0⟩ 3 0).toAssignment)]).map (dump natLe true) :=
  counter_perm_invariant _ _ natLe natLe_total true _ (Perm.swap _ _ _)


/-- reads `tag / 10`; alignment 1 is a primary one, all others are secondary -/
def assignMM : Assign PRec := fun r _ a =>
  some { recW r a 3 0 with basic := { (recW r a 3 0).basic with multimapper := a.tag != 1, readId := a.tag / 10 } }

-- two chromosomes, two files on the second; read 0 has a secondary alignment on chromosome 0 and its primary one on
-- chromosome 1 (the resolver keeps the primary one, the loader drops the other), read 1 has two secondary alignments
-- on different chromosomes (both kept): resolver, verdict files, loader and counters are live, both memory modes agree
example :
    let g : List (List (List Aln)) := [[[⟨10, 50, 2⟩, ⟨60, 90, 11⟩]], [[⟨10, 50, 1⟩], [⟨10, 50, 12⟩]]]
    let cfg2 : Config := { cfgW with mergeOrder := [0, 1] }
    (endToEnd cfg2 splitW (fun _ => assignMM) idsW [] g).map
        (fun o => o.chrs.map (fun c => c.records.map (fun p => (p.basic.readId, p.basic.chr, p.basic.start)))) =
      some [[(1, 0, 60)], [(0, 1, 10), (1, 1, 10)]] ∧
    (endToEnd { cfg2 with highMemory := true } splitW (fun _ => assignMM) idsW [] g).map
        (fun o => (o.chrs.map (fun c => c.records.map (fun p => (p.basic.readId, p.basic.chr, p.basic.start))),
                   o.transcriptCounts.rows)) =
      some ([[(1, 0, 60)], [(0, 1, 10), (1, 1, 10)]], [(1, 100), (1, 200)]) := by
  refine ⟨by decide +kernel, by decide +kernel⟩

end IsoVerif.Props.C12EndToEnd
