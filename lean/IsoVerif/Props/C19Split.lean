/-
C19 (split exons) — `GeneInfo.split_exons` returns the atoms of the exon arrangement: for every list of
well-formed exons with non-negative starts (the code uses −1 as "unset" for `last_border`; genomic coordinates
are ≥ 1) the sweep over the separately sorted starts and ends never runs out of ends and returns sorted,
pairwise disjoint, non-empty blocks that cover exactly the positions covered by the exons, each block being
contained in or disjoint from every exon, and each block ending at an exon border (the blocks are not finer than the
arrangement: merging a block with its right neighbour would straddle a border).  No bound on the number of exons or on the coordinates.
-/
import IsoVerif.Props.C19
import IsoVerif.Lemmas.Split

namespace IsoVerif.Props.C19Split
open IsoVerif.Gen IsoVerif.Model IsoVerif.Lemmas

theorem split_exons_spec (exons : List Iv) (w : WFl exons) (hpos : ∀ e ∈ exons, 0 ≤ e.1) :
    ∃ blocks, splitExons exons = some blocks ∧
      SD blocks ∧ WFl blocks ∧
      (∀ p, cov blocks p ↔ cov exons p) ∧
      (∀ b ∈ blocks, ∀ e ∈ exons, contains e b = true ∨ overlaps e b = false) ∧
      (∀ b ∈ blocks, ∃ e ∈ exons, e.1 = b.2 + 1 ∨ e.2 = b.2) := by
  have hinv : SplitInv (sortInts (exons.map (·.1))) (sortInts (exons.map (·.2))) none none 0 (-1) := {
    sS := sorted_sortInts _
    sE := sorted_sortInts _
    hps := by intro p hp; cases hp
    hpe := by intro q hq; cases hq
    hss := by
      intro s hs
      obtain ⟨e, he, rfl⟩ := List.mem_map.mp ((mem_sortInts s _).mp hs)
      have := hpos e he; omega
    hes := by
      intro x hx
      obtain ⟨e, he, rfl⟩ := List.mem_map.mp ((mem_sortInts x _).mp hx)
      have := hpos e he; have := w e he; left; omega
    hC := by
      intro x
      rw [cntLe_sortInts, cntLe_sortInts]
      have := cntLe_starts_ge_ends exons w x; omega
    hst := by omega
    hbal := by simp [length_sortInts]
    nnS := by
      intro s hs
      obtain ⟨e, he, rfl⟩ := List.mem_map.mp ((mem_sortInts s _).mp hs)
      exact hpos e he
    nnE := by
      intro x hx
      obtain ⟨e, he, rfl⟩ := List.mem_map.mp ((mem_sortInts x _).mp hx)
      have := hpos e he; have := w e he; omega
    hlb := fun _ => rfl }
  obtain ⟨res, hres, hsd, hb, hc⟩ := splitMain_spec _ _ _ _ _ _ hinv
  refine ⟨res, hres, hsd, fun b hb' => (hb b hb').2.1, fun p => ?_, fun b hb' e he => ?_, fun b hb' => ?_⟩
  · rw [hc p, cntLe_sortInts, cntLt_sortInts]
    have hd := depth_eq exons w p
    rw [← depthAt_pos_iff]
    constructor
    · rintro ⟨_, h⟩; omega
    · intro h
      refine ⟨?_, by omega⟩
      obtain ⟨r, hr, h1, _⟩ := (depthAt_pos_iff exons p).mp h
      have := hpos r hr; omega
  · obtain ⟨_, _, h3, h4, _⟩ := hb b hb'
    have h3' := h3 e.1 ((mem_sortInts _ _).mpr (List.mem_map.mpr ⟨e, he, rfl⟩))
    have h4' := h4 e.2 ((mem_sortInts _ _).mpr (List.mem_map.mpr ⟨e, he, rfl⟩))
    simp only [contains, overlaps, Bool.and_eq_true, decide_eq_true_eq, Bool.not_eq_false',
      Bool.or_eq_true, ge_iff_le, gt_iff_lt]
    omega
  · obtain ⟨_, _, _, _, h5⟩ := hb b hb'
    rcases h5 with h5 | h5
    · obtain ⟨e, he, hee⟩ := List.mem_map.mp ((mem_sortInts _ _).mp h5)
      exact ⟨e, he, Or.inl hee⟩
    · obtain ⟨e, he, hee⟩ := List.mem_map.mp ((mem_sortInts _ _).mp h5)
      exact ⟨e, he, Or.inr hee⟩

/-- the hypotheses are met by a non-trivial input: nested, abutting and duplicated borders (the input of the
    2ee949c fix); the blocks are the five atoms -/
example : WFl [(1, 3), (1, 5), (4, 5), (8, 9), (2, 8)] ∧ (∀ e ∈ [((1 : Int), (3 : Int)), (1, 5), (4, 5), (8, 9), (2, 8)], 0 ≤ e.1) ∧
    splitExons [(1, 3), (1, 5), (4, 5), (8, 9), (2, 8)] = some [(1, 1), (2, 3), (4, 5), (6, 7), (8, 8), (9, 9)] := by
  refine ⟨by decide, by decide, by decide +kernel⟩

/-- a gap between exons produces no block -/
example : splitExons [(10, 20), (1, 5)] = some [(1, 5), (10, 20)] := by decide +kernel

/-- the empty exon list gives no blocks -/
theorem split_exons_nil : splitExons [] = some [] := by decide +kernel

/-- the non-negativity hypothesis cannot be dropped: a start equal to −1 is taken for the "unset" marker of
    `last_border` and positions −1..1 are lost (outside the domain of the property: coordinates are ≥ 1) -/
example : splitExons [(-1, 3), (2, 5)] = some [(2, 3), (4, 5)] := by decide +kernel

end IsoVerif.Props.C19Split
