/-
C19 (audit-2 G4, G7) — the sorted-disjoint hypothesis (`SD`, `WFl`) of the list theorems AT THE CALL SITES that hand DERIVED
lists to the list functions.  DESIGN §6 restricts C19 to sorted, pairwise disjoint, well-formed lists "what every caller passes
(monitored on the real calls)".  The all-callers monitor (`harness/mon_wrap.py` `listfns`) found two call sites where that is
false on a legal annotation with 1–3 bp exons, 1-bp introns and touching exons:

  (1) src/exon_corrector.py  `junctions_from_blocks(new_introns)` in `correct_assigned_read`: `process_events` takes the two sites
      of a corrected intron from different sources, so an intron shorter than delta can come out EMPTY (7577, 7576), and two
      corrected introns can overlap.  Before the repair only the resulting exon chain was tested (`exon.end < next exon.start`),
      which accepts the closed intron (touching exons) and does not see the exon `junctions_from_blocks` dropped:
      `corrector_guard_orig_witness`.  Repaired (fix_corrector_closed_intron): the intron list is tested first
      (`is_valid_intron_chain`); then `junctions_from_blocks` only ever sees lists in the domain of its theorems
      (`corrector_guard_sd`) and an accepted correction realises exactly the new introns (`corrector_guard_exact`).
  (2) src/graph_based_model_construction.py  `get_exons(transcript_range, intron_path)` in `construct_fl_isoforms`: after intron
      substitution a path can repeat an intron.  The site tests `len(novel_exons) != len(intron_path) + 1` right after the call;
      `get_exons_length_guard` proves that for well-formed introns this test passes EXACTLY when the path is strictly gapped
      inside the range — so behind the guard the list is in the domain and `get_exons` returns the set-theoretic result.
      The monitor therefore requires only well-formedness at this site.

G7: `constructNonOverlapping` on an EMPTY known list with a polyA / polyT position is `none` (the code raises IndexError in
`interval_bin_search([])`): `nonoverlapping_empty_known_witness`; with the guard of fix_nonoverlapping_empty_known the
constructor is total on the empty list (`nonoverlapping_guarded_empty`) and unchanged elsewhere (`nonoverlapping_guarded_nonempty`).
-/
import IsoVerif.Model.C19Callers
import IsoVerif.Lemmas.Corrector
import IsoVerif.Lemmas.ModelConstruction
import IsoVerif.Props.C14Corrector
import IsoVerif.Props.C19Lists

namespace IsoVerif.Props.C19Callers
open IsoVerif.Gen IsoVerif.Model IsoVerif.Model.C14 IsoVerif.Model.C19Callers IsoVerif.Lemmas IsoVerif.Lemmas.C14
open IsoVerif.Props.C14Corrector

/-! ### (1) the corrector's intron-chain guard -/

/-- `is_valid_intron_chain` is exactly `Spaced`: every intron non-empty, at least one exon base between consecutive ones -/
theorem valid_intron_chain_iff (ni : List Iv) : validIntronChain ni = true ↔ Spaced ni := by
  induction ni with
  | nil => simp [validIntronChain, intronsSpaced, Spaced]
  | cons a t ih =>
    cases t with
    | nil => simp [validIntronChain, intronsSpaced, Spaced]
    | cons b t' =>
      simp only [validIntronChain, intronsSpaced, Spaced, List.all_cons, Bool.and_eq_true, decide_eq_true_eq] at ih ⊢
      constructor
      · rintro ⟨⟨ha, hall⟩, hg, hs⟩; exact ⟨ha, hg, ih.mp ⟨hall, hs⟩⟩
      · rintro ⟨ha, hg, hsp⟩
        obtain ⟨hall, hs⟩ := ih.mpr hsp
        exact ⟨⟨ha, hall⟩, hg, hs⟩

/-- **corrector_guard_sd** — behind the guard the argument of `junctions_from_blocks` satisfies the hypotheses of every C19 list
    theorem (`junctions_are_gaps`, `junctions_exons_inverse`, …): discharge of `SD` / `WFl` at exon_corrector.py -/
theorem corrector_guard_sd (ni : List Iv) (h : validIntronChain ni = true) : SD ni ∧ WFl ni :=
  ⟨Spaced_SD ((valid_intron_chain_iff ni).mp h), Spaced_WFl ((valid_intron_chain_iff ni).mp h)⟩

example : validIntronChain [(7510, 7513), (7518, 7571), (7577, 7577), (7608, 7608), (7639, 7639)] = true := by decide

/-- **corrector_guard_exact** — whatever `process_events` returns, the tail of `correct_assigned_read` gives back either the
    read's own exons or a sorted, disjoint, well-formed exon chain whose introns are EXACTLY the new introns (no intron closed,
    no exon dropped) -/
theorem corrector_guard_exact (reg : Iv) (ni exons : List Iv) :
    guardedExons reg ni exons = exons ∨
    (guardedExons reg ni exons = buildExons reg ni ∧ SD (buildExons reg ni) ∧ WFl (buildExons reg ni) ∧
      junctionsFromBlocks (buildExons reg ni) = ni) := by
  unfold guardedExons
  by_cases hi : validIntronChain ni = true
  · by_cases hc : validChain (buildExons reg ni) = true
    · right
      simp only [hi, hc, if_true, true_and]
      obtain ⟨hw, hsd⟩ := (validChain_iff _).mp hc
      have hsp := (valid_intron_chain_iff ni).mp hi
      have hfit : IntronsFit reg ni := by
        refine ⟨hsp, ?_, ?_, ?_⟩
        · intro f hf
          cases ni with
          | nil => simp at hf
          | cons a rest =>
            simp at hf; subst hf
            obtain ⟨t, ht⟩ := getLast?_cons_some a rest
            rw [buildExons_cons reg a rest t ht] at hw
            have := hw (reg.1, a.1 - 1) (by simp [chain]); simp at this; omega
        · intro l hl
          cases ni with
          | nil => simp at hl
          | cons a rest =>
            rw [buildExons_cons reg a rest l hl] at hw
            have := hw (l.2 + 1, reg.2) (by simp [chain]); simp at this; omega
        · intro e; subst e
          rw [buildExons_nil] at hw
          exact hw reg (by simp)
      exact (corrected_valid_iff reg ni).mpr hfit
    · left; simp [hi, hc]
  · left; simp [hi]

/-- the repair removes nothing that was a proper correction: new introns that fit the region are still realised -/
theorem corrector_guard_keeps_proper (reg : Iv) (ni exons : List Iv) (h : IntronsFit reg ni) :
    guardedExons reg ni exons = buildExons reg ni := by
  obtain ⟨hsd, hw, _⟩ := (corrected_valid_iff reg ni).mpr h
  have hi := (valid_intron_chain_iff ni).mpr h.1
  have hc := (validChain_iff _).mpr ⟨hw, hsd⟩
  simp [guardedExons, hi, hc]

example : IntronsFit (7479, 7940) [(7510, 7513), (7518, 7571), (7577, 7577), (7608, 7608), (7639, 7639)] := by
  refine ⟨by decide, ?_, ?_, by intro h; cases h⟩
  · intro f hf; simp at hf; subst hf; decide
  · intro l hl; simp at hl; subst hl; decide

/-- **corrector_guard_orig_witness** — the code before the repair on the failing input of the pipeline run (read r_T3_c_5,
    isoform T3_c with the 1-bp introns 7577 and 7608; `process_events` returned the empty introns (7577,7576), (7608,7607)):
    the exon-chain test alone accepts, the result has touching exons and only three of the five introns; the repaired tail
    returns the read's own exons -/
theorem corrector_guard_orig_witness :
    let reg : Iv := (7479, 7940)
    let ni : List Iv := [(7510, 7513), (7518, 7571), (7577, 7576), (7608, 7607), (7639, 7639)]
    let exons : List Iv := [(7479, 7509), (7514, 7517), (7573, 7575), (7577, 7606), (7608, 7637), (7640, 7940)]
    guardedExonsOrig reg ni exons = [(7479, 7509), (7514, 7517), (7572, 7576), (7577, 7607), (7608, 7638), (7640, 7940)] ∧
    junctionsFromBlocks (guardedExonsOrig reg ni exons) = [(7510, 7513), (7518, 7571), (7639, 7639)] ∧
    ¬ (SD ni ∧ WFl ni) ∧
    guardedExons reg ni exons = exons := by
  refine ⟨by decide, by decide, ?_, by decide⟩
  rintro ⟨_, hw⟩
  have := hw (7577, 7576) (by simp)
  simp at this

/-- second shape of the same hole (read r_T4_a_1): two corrected introns overlap, `junctions_from_blocks` drops the 2-bp exon
    between them and the exon-chain test accepts a chain that lost the intron (11178, 11179) of the read as well -/
theorem corrector_guard_orig_witness_overlap :
    let reg : Iv := (10150, 11223)
    let ni : List Iv := [(10152, 11050), (11172, 11172), (11181, 11185), (11182, 11185), (11188, 11192)]
    let exons : List Iv := [(10150, 10151), (11051, 11171), (11173, 11177), (11180, 11181), (11186, 11187), (11193, 11223)]
    guardedExonsOrig reg ni exons = [(10150, 10151), (11051, 11171), (11173, 11180), (11186, 11187), (11193, 11223)] ∧
    ¬ SD ni ∧ guardedExons reg ni exons = exons := by
  refine ⟨by decide, by decide, by decide⟩

/-! ### (2) the length guard behind `get_exons` in `construct_fl_isoforms` -/

theorem pathGapped_sd : ∀ (s : Int) (ip : List Iv) (e : Int), C04.PathGapped s ip e →
    SD ip ∧ WFl ip ∧ (∀ i ∈ ip, s < i.1 ∧ i.2 < e)
  | s, [], e, _ => by simp [SD, WFl]
  | s, [a], e, h => by
    simp only [C04.PathGapped] at h
    refine ⟨trivial, fun r hr => ?_, fun i hi => ?_⟩
    · simp at hr; subst hr; exact h.2.1
    · simp at hi; subst hi; exact ⟨h.1, by omega⟩
  | s, a :: b :: t, e, h => by
    have h' := h
    simp only [C04.PathGapped] at h
    obtain ⟨h1, h2, h3, h4, h5⟩ := h
    have hrest : C04.PathGapped (a.2 + 1) (b :: t) e := by simp only [C04.PathGapped]; exact ⟨h3, h4, h5⟩
    obtain ⟨ihsd, ihw, ihb⟩ := pathGapped_sd (a.2 + 1) (b :: t) e hrest
    refine ⟨⟨by omega, ihsd⟩, fun r hr => ?_, fun i hi => ?_⟩
    · rcases List.mem_cons.mp hr with e1 | e1
      · subst e1; exact h2
      · exact ihw r e1
    · rcases List.mem_cons.mp hi with e1 | e1
      · subst e1
        have := (ihb b (by simp)).2
        exact ⟨h1, by omega⟩
      · have := ihb i e1
        exact ⟨by omega, this.2⟩

/-- **get_exons_length_guard** — for well-formed introns, ANY order, repetitions and overlaps allowed: if `get_exons` returns
    one exon more than there are introns (the test of `construct_fl_isoforms`), then the intron list is sorted, pairwise
    disjoint, strictly inside the range — the domain of the list theorems — and the exons returned have exactly these introns.
    A path that repeats an intron, or whose introns touch or overlap, fails the test (`get_exons_guard_rejects_repeat`). -/
theorem get_exons_length_guard (s e : Int) (ip : List Iv) (hwf : ∀ i ∈ ip, i.1 ≤ i.2)
    (hlen : (getExons (s, e) ip).length = ip.length + 1) :
    SD ip ∧ WFl ip ∧ (∀ i ∈ ip, s < i.1 ∧ i.2 < e) ∧ junctionsFromBlocks (getExons (s, e) ip) = ip := by
  have hg := IsoVerif.Lemmas.C04.pathGapped_of_getExons_length s e ip hwf hlen
  obtain ⟨h1, h2, h3⟩ := pathGapped_sd s ip e hg
  exact ⟨h1, h2, h3, IsoVerif.Lemmas.C04.junctions_getExons s e ip hg⟩

example : (getExons (1000, 2300) [(1436, 1561), (1567, 1866), (2267, 2296)]).length = 3 + 1 := by decide

/-- the path the monitor saw at graph_based_model_construction.py:431 (adversarial data, seed 3): a repeated intron; the
    exon between the two copies is empty, `get_exons` drops it and the length test rejects the path -/
theorem get_exons_guard_rejects_repeat :
    let ip : List Iv := [(1005, 1435), (1562, 1566), (1562, 1566), (1867, 2266), (2297, 2298)]
    ¬ SD ip ∧ (getExons (1000, 2400) ip).length ≠ ip.length + 1 := by
  refine ⟨by decide, by decide⟩

/-! ### G7: the split-exon read profile on an empty known list -/

/-- **nonoverlapping_empty_known_witness**: with a polyA (or polyT) position the unguarded constructor raises on an empty
    known list (`interval_bin_search([])`, IndexError) — latent: none of the five callers builds the constructor on an empty
    gene info AND passes a tail position (docs/C19.md) -/
theorem nonoverlapping_empty_known_witness (cmp : Iv → Iv → Bool) (delta : Int) (R : List Iv) (pa pt : Int)
    (h : pa ≠ -1 ∨ pt ≠ -1) : constructNonOverlapping [] cmp delta R pa pt = none := by
  unfold constructNonOverlapping
  by_cases ha : pa = -1
  · have ht : pt ≠ -1 := by rcases h with h | h; exact absurd ha h; exact h
    simp [ha, ht, intervalBinSearchRev]
  · simp [ha, intervalBinSearch]

example : constructNonOverlapping [] (fun a b => overlaps_at_least_when_overlap a b 5) 6 [(1000, 1500), (2000, 3000)] 3000 (-1)
    = none := by decide +kernel

/-- with the guard (`and self.known_exons`) the constructor is total on the empty list: empty gene profile, untouched read profile -/
theorem nonoverlapping_guarded_empty (cmp : Iv → Iv → Bool) (delta : Int) (R : List Iv) (pa pt : Int) :
    ∃ res, constructNonOverlappingG [] cmp delta R pa pt = some res ∧ res.gene = [] ∧ res.read = R.map (fun _ => 0) := by
  simp [constructNonOverlappingG, constructNonOverlapping, noSweep]

/-- … and nothing changes where the list is not empty -/
theorem nonoverlapping_guarded_nonempty (K : List Iv) (hK : K ≠ []) (cmp : Iv → Iv → Bool) (delta : Int) (R : List Iv)
    (pa pt : Int) : constructNonOverlappingG K cmp delta R pa pt = constructNonOverlapping K cmp delta R pa pt := by
  cases K with
  | nil => exact absurd rfl hK
  | cons a t => simp [constructNonOverlappingG]

end IsoVerif.Props.C19Callers
