/-
C17 — the check of the input annotation establishes what the id theorems assume about the reference.

Model: IsoVerif/Model/IdsInput.lean (`check` = `check_gtf_duplicates` of src/gtf2db.py after the repair of audit finding
G-C17-1, `check false` = the code of 5e64455; `dbOf` = the gffutils database of a record list; `checkDb` =
`check_db_sequences`, the repair of G-C17-2).  Helper lemmas: IsoVerif/Lemmas/IdsInput.lean.  No bounds: all record lists,
all ids and sequence names (arbitrary strings).
-/
import IsoVerif.Model.IdsInput
import IsoVerif.Lemmas.IdsInput

namespace IsoVerif.Props.C17Input
open IsoVerif.Model.C17 IsoVerif.Lemmas.C17Input


/-! ## 1. the hypothesis of the id theorems about the reference, made explicit

`no_reference_collision`, `extended_annotation_transcript_ids_nodup` (Props/C17.lean) speak about "the reference transcript
ids of the chromosome": the list the chromosome's `ExcludingIdDistributor` scans (`locatedOn`) is taken to be the list of
reference transcripts printed on that chromosome (`printedOn`: children of the genes located there), every printed exon
line to lie on that chromosome, and the lists of different chromosomes to be disjoint, so that the per-chromosome
blocks of an output file can be concatenated.  All three follow from `SeqConsistent`: every level-1 relation of the
database joins features of ONE sequence.  The two audit defects are inputs that violate it and were let through:
G-C17-1 (a transcript id on two sequences in a GTF – `check false`, the check of 5e64455) and G-C17-2 (a database given
directly as `--genedb`, never checked). -/

/-- every gene → transcript and transcript → exon (CDS, ...) relation joins features of one sequence -/
def SeqConsistent (db : Db) : Prop :=
  (∀ p ∈ db.gt, ∀ g ∈ db.genes, ∀ t ∈ db.trs, g.1 = p.1 → t.1 = p.2 → g.2 = t.2) ∧
  (∀ p ∈ db.te, ∀ t ∈ db.trs, t.1 = p.1 → t.2 = p.2)

/-- **`check_db_sequences` decides sequence consistency** (the query returns no row iff ...) -/
theorem checkDb_iff (db : Db) : checkDb db = true ↔ SeqConsistent db := by
  simp only [checkDb, dbBadRelations, SeqConsistent, List.isEmpty_iff, List.append_eq_nil_iff,
    List.flatMap_eq_nil_iff, List.map_eq_nil_iff, List.filter_eq_nil_iff]
  constructor
  · rintro ⟨h1, h2⟩
    refine ⟨fun p hp g hg t ht e1 e2 => ?_, fun p hp t ht e => ?_⟩
    · have := h1 p hp g (by simp [List.mem_filter, hg, e1]) t ht
      exact (by simpa [e2] using this : t.2 = g.2).symm
    · have := h2 p hp t ht
      simpa [e] using this
  · rintro ⟨h1, h2⟩
    refine ⟨fun p hp g hg t ht => ?_, fun p hp t ht => ?_⟩
    · simp only [List.mem_filter, beq_iff_eq] at hg
      simp only [Bool.and_eq_true, beq_iff_eq, bne_iff_ne, ne_eq, not_and, Decidable.not_not]
      intro e2
      exact (h1 p hp g hg.1 t ht hg.2 e2).symm
    · simp only [Bool.and_eq_true, beq_iff_eq, bne_iff_ne, ne_eq, not_and, Decidable.not_not]
      intro e
      exact h2 p hp t ht e

/-- on a consistent database the reference transcripts printed on a sequence are transcripts located on it: what the
    chromosome's id distributor has seen (`hfeat`: the transcript of every relation has a feature – gffutils infers the
    missing ones unless `--complete_genedb` is given) -/
theorem printed_on_located (db : Db) (hc : SeqConsistent db) (hfeat : ∀ p ∈ db.gt, ∃ t ∈ db.trs, t.1 = p.2)
    (c : Str) : ∀ t ∈ printedOn db c, t ∈ locatedOn db c := by
  intro t ht
  simp only [printedOn, List.mem_flatMap, List.mem_filter, List.mem_map, beq_iff_eq] at ht
  obtain ⟨g, ⟨hg, hgc⟩, p, ⟨hp, hpg⟩, rfl⟩ := ht
  obtain ⟨tf, htf, e⟩ := hfeat p hp
  have := hc.1 p hp g hg tf htf hpg.symm e
  simp only [locatedOn, List.mem_map, List.mem_filter, beq_iff_eq]
  exact ⟨tf, ⟨htf, by rw [← this, hgc]⟩, e⟩

/-- ... and every exon / CDS / ... line printed under such a transcript lies on that sequence (no chimeric transcript) -/
theorem printed_exons (db : Db) (hc : SeqConsistent db) (hfeat : ∀ p ∈ db.gt, ∃ t ∈ db.trs, t.1 = p.2)
    (c : Str) : ∀ t ∈ printedOn db c, ∀ s ∈ exonSeqsOf db t, s = c := by
  intro t ht s hs
  have hl := printed_on_located db hc hfeat c t ht
  simp only [locatedOn, List.mem_map, List.mem_filter, beq_iff_eq] at hl
  obtain ⟨tf, ⟨htf, htc⟩, e⟩ := hl
  simp only [exonSeqsOf, List.mem_map, List.mem_filter, beq_iff_eq] at hs
  obtain ⟨p, ⟨hp, hpt⟩, rfl⟩ := hs
  rw [← htc]
  exact (hc.2 p hp tf htf (by rw [e, hpt])).symm

/-- ... and no reference transcript id is printed on two sequences (`hkey`: feature ids are the primary key of the
    database): the per-chromosome blocks of `extended_annotation.gtf` have disjoint reference transcript ids -/
theorem printed_disjoint (db : Db) (hc : SeqConsistent db) (hfeat : ∀ p ∈ db.gt, ∃ t ∈ db.trs, t.1 = p.2)
    (hkey : ∀ t ∈ db.trs, ∀ t' ∈ db.trs, t.1 = t'.1 → t = t') (c c' : Str) (hne : c ≠ c') :
    ∀ t ∈ printedOn db c, t ∉ printedOn db c' := by
  intro t ht ht'
  have h1 := printed_on_located db hc hfeat c t ht
  have h2 := printed_on_located db hc hfeat c' t ht'
  simp only [locatedOn, List.mem_map, List.mem_filter, beq_iff_eq] at h1 h2
  obtain ⟨a, ⟨ha, hac⟩, ea⟩ := h1
  obtain ⟨b, ⟨hb, hbc⟩, eb⟩ := h2
  have := hkey a ha b hb (by rw [ea, eb])
  subst this
  exact hne (hac.symm.trans hbc)

/-! ## 2. the input check establishes the hypothesis -/

/-- what an accepted annotation looks like (declarative): a gene id and a transcript id each live on one sequence,
    no gene / transcript record is repeated, no transcript is called like its gene -/
structure InputWF (recs : List GtfRec) : Prop where
  gene_one_seq : ∀ r ∈ recs, ∀ r' ∈ recs, r.gene = r'.gene → r.seq = r'.seq
  tr_one_seq : ∀ r ∈ recs, ∀ r' ∈ recs, r.kind ≠ .gene → r'.kind ≠ .gene → r.tr = r'.tr → r.seq = r'.seq
  gene_records_nodup : ((recs.filter (fun r => r.kind == .gene)).map (·.gene)).Nodup
  tr_records_nodup : ((recs.filter (fun r => r.kind == .transcript)).map (·.tr)).Nodup
  gene_ne_tr : ∀ r ∈ recs, r.kind ≠ .gene → r.gene ≠ r.tr

/-- the sequence of an inferred feature is the sequence of one of its lines -/
def Admissible (recs : List GtfRec) (gseq tseq : Str → Str) : Prop :=
  (∀ r ∈ recs, ∃ r' ∈ recs, r'.gene = r.gene ∧ r'.seq = gseq r.gene) ∧
  (∀ r ∈ recs, r.kind ≠ .gene → ∃ r' ∈ recs, r'.kind ≠ .gene ∧ r'.tr = r.tr ∧ r'.seq = tseq r.tr)

theorem dbOf_gene_feature (recs : List GtfRec) (gseq tseq : Str → Str) (ha : Admissible recs gseq tseq)
    (g : Str × Str) (hg : g ∈ (dbOf recs gseq tseq).genes) : ∃ r ∈ recs, r.gene = g.1 ∧ r.seq = g.2 := by
  simp only [dbOf, List.mem_map, List.mem_eraseDups] at hg
  obtain ⟨gid, ⟨r0, hr0, e0⟩, rfl⟩ := hg
  cases hf : recs.find? (fun r => r.kind == .gene && r.gene == gid) with
  | some r =>
    have hm := List.mem_of_find?_eq_some hf
    have hp := List.find?_some hf
    simp only [Bool.and_eq_true, beq_iff_eq] at hp
    exact ⟨r, hm, hp.2, rfl⟩
  | none =>
    obtain ⟨r', hr', e1, e2⟩ := ha.1 r0 hr0
    exact ⟨r', hr', by rw [e1, e0], by rw [e2, e0]⟩

theorem dbOf_tr_feature (recs : List GtfRec) (gseq tseq : Str → Str) (ha : Admissible recs gseq tseq)
    (t : Str × Str) (ht : t ∈ (dbOf recs gseq tseq).trs) :
    ∃ r ∈ recs, r.kind ≠ .gene ∧ r.tr = t.1 ∧ r.seq = t.2 := by
  simp only [dbOf, List.mem_map, List.mem_eraseDups, List.mem_filter, bne_iff_ne, ne_eq] at ht
  obtain ⟨tid, ⟨r0, ⟨hr0, hk0⟩, e0⟩, rfl⟩ := ht
  cases hf : recs.find? (fun r => r.kind == .transcript && r.tr == tid) with
  | some r =>
    have hm := List.mem_of_find?_eq_some hf
    have hp := List.find?_some hf
    simp only [Bool.and_eq_true, beq_iff_eq] at hp
    exact ⟨r, hm, by rw [hp.1]; decide, hp.2, rfl⟩
  | none =>
    obtain ⟨r', hr', k1, e1, e2⟩ := ha.2 r0 hr0 hk0
    exact ⟨r', hr', k1, by rw [e1, e0], by rw [e2, e0]⟩

/-- a well-formed annotation gives a sequence-consistent database, whichever of its lines sqlite takes the sequence of
    an inferred gene / transcript from -/
theorem wf_db_consistent (recs : List GtfRec) (wf : InputWF recs) (gseq tseq : Str → Str)
    (ha : Admissible recs gseq tseq) :
    SeqConsistent (dbOf recs gseq tseq) ∧
    (∀ p ∈ (dbOf recs gseq tseq).gt, ∃ t ∈ (dbOf recs gseq tseq).trs, t.1 = p.2) ∧
    (∀ t ∈ (dbOf recs gseq tseq).trs, ∀ t' ∈ (dbOf recs gseq tseq).trs, t.1 = t'.1 → t = t') := by
  refine ⟨⟨?_, ?_⟩, ?_, ?_⟩
  · intro p hp g hg t ht e1 e2
    obtain ⟨rg, hrg, g1, g2⟩ := dbOf_gene_feature recs gseq tseq ha g hg
    obtain ⟨rt, hrt, tk, t1, t2⟩ := dbOf_tr_feature recs gseq tseq ha t ht
    simp only [dbOf, List.mem_eraseDups, List.mem_map, List.mem_filter, bne_iff_ne, ne_eq] at hp
    obtain ⟨r0, ⟨hr0, hk0⟩, rfl⟩ := hp
    rw [← g2, ← t2, wf.gene_one_seq rg hrg r0 hr0 (by rw [g1, e1]), wf.tr_one_seq rt hrt r0 hr0 tk hk0 (by rw [t1, e2])]
  · intro p hp t ht e
    obtain ⟨rt, hrt, tk, t1, t2⟩ := dbOf_tr_feature recs gseq tseq ha t ht
    simp only [dbOf, List.mem_map, List.mem_filter, beq_iff_eq] at hp
    obtain ⟨r0, ⟨hr0, hk0⟩, rfl⟩ := hp
    rw [← t2]
    exact wf.tr_one_seq rt hrt r0 hr0 tk (by rw [hk0]; decide) (by rw [t1, e])
  · intro p hp
    simp only [dbOf, List.mem_eraseDups, List.mem_map, List.mem_filter, bne_iff_ne, ne_eq] at hp ⊢
    obtain ⟨r0, ⟨hr0, hk0⟩, rfl⟩ := hp
    exact ⟨_, ⟨r0.tr, ⟨r0, ⟨hr0, hk0⟩, rfl⟩, rfl⟩, rfl⟩
  · intro t ht t' ht' e
    simp only [dbOf, List.mem_map] at ht ht'
    obtain ⟨a, _, rfl⟩ := ht
    obtain ⟨b, _, rfl⟩ := ht'
    simp only at e
    subst e; rfl

/-- **checked_annotation_wf**: an annotation that `check_gtf_duplicates` (repaired) accepts is well formed, and the
    "corrected" text equals the input (nothing was renamed) -/
theorem checked_annotation_wf (recs : List GtfRec) (h : (check true recs).1 = true) :
    InputWF recs ∧ (check true recs).2 = recs := by
  have inv := check_inv recs h
  refine ⟨⟨?_, ?_, inv.gnd, inv.tnd, inv.ne⟩, inv.out⟩
  · intro r hr r' hr' e
    have h1 := inv.gseq r hr
    have h2 := inv.gseq r' hr'
    rw [e, h2] at h1
    simpa using h1.symm
  · intro r hr r' hr' k k' e
    have h1 := inv.tseq r hr k
    have h2 := inv.tseq r' hr' k'
    rw [e, h2] at h1
    simpa using h1.symm

/-- **an accepted annotation satisfies the hypothesis of the id theorems**: its database is sequence consistent, hence
    (for every sequence `c`) the printed reference transcripts are the ones the distributor of `c` saw, all their
    exon lines lie on `c`, and no reference transcript id appears in the blocks of two sequences -/
theorem checked_annotation_ids_hypothesis (recs : List GtfRec) (h : (check true recs).1 = true)
    (gseq tseq : Str → Str) (ha : Admissible recs gseq tseq) :
    let db := dbOf recs gseq tseq
    checkDb db = true ∧
    (∀ c, ∀ t ∈ printedOn db c, t ∈ locatedOn db c ∧ ∀ s ∈ exonSeqsOf db t, s = c) ∧
    (∀ c c', c ≠ c' → ∀ t ∈ printedOn db c, t ∉ printedOn db c') := by
  intro db
  obtain ⟨hc, hfeat, hkey⟩ := wf_db_consistent recs (checked_annotation_wf recs h).1 gseq tseq ha
  exact ⟨(checkDb_iff db).mpr hc,
    fun c t ht => ⟨printed_on_located db hc hfeat c t ht, printed_exons db hc hfeat c t ht⟩,
    fun c c' hne => printed_disjoint db hc hfeat hkey c c' hne⟩

/-- the same for a database given directly (`--genedb ann.db`): what `check_db_sequences` accepts satisfies the
    hypothesis (`hfeat`, `hkey`: see `printed_on_located`, `printed_disjoint`) -/
theorem checked_db_ids_hypothesis (db : Db) (h : checkDb db = true)
    (hfeat : ∀ p ∈ db.gt, ∃ t ∈ db.trs, t.1 = p.2)
    (hkey : ∀ t ∈ db.trs, ∀ t' ∈ db.trs, t.1 = t'.1 → t = t') :
    (∀ c, ∀ t ∈ printedOn db c, t ∈ locatedOn db c ∧ ∀ s ∈ exonSeqsOf db t, s = c) ∧
    (∀ c c', c ≠ c' → ∀ t ∈ printedOn db c, t ∉ printedOn db c') := by
  have hc := (checkDb_iff db).mp h
  exact ⟨fun c t ht => ⟨printed_on_located db hc hfeat c t ht, printed_exons db hc hfeat c t ht⟩,
    fun c c' hne => printed_disjoint db hc hfeat hkey c c' hne⟩

/-! ### non-vacuity: an exon-only annotation of two sequences (gene and transcript records inferred) and one with records -/

def okExonOnly : List GtfRec :=
  [⟨"chr1".toList, .other, "G1".toList, "T1".toList⟩, ⟨"chr1".toList, .other, "G1".toList, "T1".toList⟩,
   ⟨"chr1".toList, .other, "G1".toList, "T2".toList⟩, ⟨"chr1.1".toList, .other, "G2".toList, "T3".toList⟩]

def okRecords : List GtfRec :=
  [⟨"chr1".toList, .gene, "G1".toList, []⟩, ⟨"chr1".toList, .transcript, "G1".toList, "T1".toList⟩,
   ⟨"chr1".toList, .other, "G1".toList, "T1".toList⟩, ⟨"chr2".toList, .gene, "G2".toList, []⟩,
   ⟨"chr2".toList, .transcript, "G2".toList, "T2".toList⟩, ⟨"chr2".toList, .other, "G2".toList, "T2".toList⟩]

example : (check true okExonOnly).1 = true ∧ (check true okRecords).1 = true := by decide

example : Admissible okExonOnly (fun g => if g = "G1".toList then "chr1".toList else "chr1.1".toList)
    (fun t => if t = "T3".toList then "chr1.1".toList else "chr1".toList) := by
  constructor
  · intro r hr
    simp only [okExonOnly, List.mem_cons, List.not_mem_nil, or_false] at hr
    rcases hr with rfl | rfl | rfl | rfl <;> exact ⟨_, by simp [okExonOnly], rfl, by decide⟩
  · intro r hr hk
    simp only [okExonOnly, List.mem_cons, List.not_mem_nil, or_false] at hr
    rcases hr with rfl | rfl | rfl | rfl <;> exact ⟨_, by simp [okExonOnly], by decide, rfl, by decide⟩

example : printedOn (dbOf okExonOnly (fun g => if g = "G1".toList then "chr1".toList else "chr1.1".toList)
      (fun t => if t = "T3".toList then "chr1.1".toList else "chr1".toList)) "chr1".toList
    = ["T1".toList, "T2".toList] := by decide

-- non-vacuity of `checked_db_ids_hypothesis`: the database of `okRecords` (no feature is inferred)
example : let db := dbOf okRecords (fun _ => []) (fun _ => [])
    checkDb db = true ∧ (∀ p ∈ db.gt, ∃ t ∈ db.trs, t.1 = p.2) ∧ printedOn db "chr2".toList = ["T2".toList] := by
  refine ⟨by decide, by decide, by decide⟩

/-! ## 3. the two defects (regression witnesses; replayed on the real code by the pipeline scenarios -3, -4, -5) -/

/-- the exon-only annotation of the audit: gene SHARED / transcript TSHARED on chr1 and on chr1.1 -/
def sharedIds : List GtfRec :=
  [⟨"chr1".toList, .other, "SHARED".toList, "TSHARED".toList⟩, ⟨"chr1.1".toList, .other, "SHARED".toList, "TSHARED".toList⟩]

/-- what the check of 5e64455 writes into `<name>.corrected.gtf` for it: the gene is renamed, the transcript is not -/
def sharedIdsCorrectedOrig : List GtfRec :=
  [⟨"chr1".toList, .other, "SHARED".toList, "TSHARED".toList⟩,
   ⟨"chr1.1".toList, .other, "SHARED.chr1.1".toList, "TSHARED".toList⟩]

/-- **G-C17-1 witness**: the old check rejects `sharedIds`, writes `sharedIdsCorrectedOrig` and ACCEPTS that file;
    its database is not sequence consistent: TSHARED is printed on chr1 and on chr1.1, each time with the exon lines of
    both sequences – `checked_annotation_ids_hypothesis` is false of `check false` -/
theorem transcript_on_two_sequences_orig_witness :
    check false sharedIds = (false, sharedIdsCorrectedOrig) ∧ (check false sharedIdsCorrectedOrig).1 = true ∧
    (let db := dbOf sharedIdsCorrectedOrig (fun g => if g = "SHARED".toList then "chr1".toList else "chr1.1".toList)
        (fun _ => "chr1".toList)
     checkDb db = false ∧ "TSHARED".toList ∈ printedOn db "chr1".toList ∧ "TSHARED".toList ∈ printedOn db "chr1.1".toList ∧
     exonSeqsOf db "TSHARED".toList = ["chr1".toList, "chr1.1".toList]) := by
  refine ⟨by decide, by decide, by decide, by decide, by decide, by decide⟩

/-- the repaired check rejects both files, renames the transcript of the second sequence as well, and accepts its own
    corrected text -/
theorem transcript_on_two_sequences_repaired :
    (check true sharedIds).1 = false ∧ (check true sharedIdsCorrectedOrig).1 = false ∧
    (check true sharedIds).2 = [⟨"chr1".toList, .other, "SHARED".toList, "TSHARED".toList⟩,
      ⟨"chr1.1".toList, .other, "SHARED.chr1.1".toList, "TSHARED.chr1.1".toList⟩] ∧
    (check true (check true sharedIds).2).1 = true := by
  refine ⟨by decide, by decide, by decide, by decide⟩

/-- **G-C17-2 witness**: the database of an annotation with one gene id on two sequences, given directly as `--genedb`
    (no GTF check runs): transcript T2 of chr2 is printed on chr1, a transcript the distributor of chr1 never saw;
    `check_db_sequences` rejects it -/
theorem unchecked_db_witness :
    let db := dbOf [⟨"chr1".toList, .other, "SHARED".toList, "T1".toList⟩, ⟨"chr2".toList, .other, "SHARED".toList, "T2".toList⟩]
      (fun _ => "chr1".toList) (fun t => if t = "T1".toList then "chr1".toList else "chr2".toList)
    "T2".toList ∈ printedOn db "chr1".toList ∧ "T2".toList ∉ locatedOn db "chr1".toList ∧ checkDb db = false := by
  refine ⟨by decide, by decide, by decide⟩

/-! ### the corrected GTF

Full-strength statement (FALSE of model and code): the text `check_gtf_duplicates` writes into `<name>.corrected.gtf` is
accepted when it is checked again.  The new name `<id>.<seq>` may be an id the file already uses elsewhere. -/

/-- witness: gene G on c1 and c2, and a gene that is already called `G.c2` on c3: the corrected text has `G.c2` on c2 and
    on c3 and is rejected again (loudly – the user is told so; a further round renames it to `G.c2.c3`) -/
theorem corrected_gtf_not_always_accepted_witness :
    let recs : List GtfRec := [⟨"c1".toList, .other, "G".toList, "T1".toList⟩, ⟨"c2".toList, .other, "G".toList, "T2".toList⟩,
      ⟨"c3".toList, .other, "G.c2".toList, "T3".toList⟩]
    (check true recs).1 = false ∧ (check true (check true recs).2).1 = false ∧
    (check true (check true (check true recs).2).2).1 = true := by
  refine ⟨by decide, by decide, by decide⟩

end IsoVerif.Props.C17Input
