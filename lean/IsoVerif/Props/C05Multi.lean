/-
C05 (growth) — every alignment accounted for in an experiment made of SEVERAL BAM files, both memory modes.

Theorems about `Model/RegionsMulti.lean`: the composition of C12's model of `BAMOnlineMerger` (k-way merge on
`(reference_start, reference_end, bam_index)`) with C05's model of the storages, `split_coverage_regions` and the
statistics.  For every number of files, every tuple of coordinate-sorted files (sorted by start only) and every `rest`
(the part of a record that the merger does not look at).  No bounds.

`ValidFiles files L` (Lemmas/RegionsMulti.lean): every file sorted by `reference_start`, every record with at least one
reference base and inside the reference `[0, L]` whose length the collector reads from the FIRST file.
-/
import IsoVerif.Model.RegionsMulti
import IsoVerif.Lemmas.RegionsMulti
import IsoVerif.Lemmas.RegionsMultiEmpty
import IsoVerif.Lemmas.RegionsMultiOrder
import IsoVerif.Props.C05
import IsoVerif.Props.C12

namespace IsoVerif.Props.C05Multi
open IsoVerif.Gen IsoVerif.Model IsoVerif.Model.Regions IsoVerif.Model.RegionsMulti
open IsoVerif.Lemmas.Regions IsoVerif.Lemmas.RegionsMulti
open IsoVerif.Lemmas.C12 (Forall2)

/-! ### the per-region, per-file specification -/

/-- **multi_region_per_file_exact** (both memory modes): the collector terminates without error and, for every region it
    forwards and every file index `i`, the alignments handed over WITH bam index `i` are exactly the records of file `i`
    that `fetch` returns for that region, in file order.  So nothing is invented, nothing is repeated inside a region,
    every label is the index of the file the record came from, and what is forwarded under label `i` depends on file
    `i` and the region only — an empty file, or a file without a record in the region, contributes nothing and changes
    nothing under the other labels. -/
theorem multi_region_per_file_exact (m : Mode) (rest : Nat → Aln) (files : List (List C12.Aln)) (L : Int)
    (hv : ValidFiles files L) :
    ∃ out, collectM m rest files L = some out ∧
      ∀ p, p ∈ out → ∀ i : Nat,
        (p.2.filter (fun e => e.1 == i)).map Prod.snd = (C12.fetch p.1 (files[i]?.getD [])).map (full rest) := by
  refine ⟨_, collectM_eq m hv, ?_⟩
  intro p hp i
  obtain ⟨ms, hms, hp⟩ := List.mem_flatMap.1 hp
  obtain ⟨r, hr, rfl⟩ := List.mem_map.1 hp
  exact handed_spec m hv hms hr i

/-- **multi_every_alignment_forwarded**: every record of every file is handed to `process_alignments_in_region` for at
    least one region that it overlaps, carrying the index of ITS file — no loss through merging, clustering, region
    splitting, the bin index of the in-memory storage or the per-region re-fetch, in either memory mode. -/
theorem multi_every_alignment_forwarded (m : Mode) (rest : Nat → Aln) (files : List (List C12.Aln)) (L : Int)
    (hv : ValidFiles files L) :
    ∃ out, collectM m rest files L = some out ∧
      ∀ (i : Nat) (f : List C12.Aln), files[i]? = some f → ∀ b, b ∈ f →
        ∃ p, p ∈ out ∧ (i, full rest b) ∈ p.2 ∧ overlaps p.1 (full rest b).iv = true := by
  refine ⟨_, collectM_eq m hv, ?_⟩
  intro i f hfi b hb
  have hflat : b ∈ files.flatten := List.mem_flatten.2 ⟨f, List.mem_of_getElem? hfi, hb⟩
  obtain ⟨ms, hms, r, hr, hin⟩ := covered (rest := rest) hv hflat
  refine ⟨(r, handed m rest files ms r), ?_, ?_, ?_⟩
  · exact List.mem_flatMap.2 ⟨ms, hms, List.mem_map.2 ⟨r, hr, rfl⟩⟩
  · have hs := handed_spec m hv hms hr i
    rw [hfi] at hs
    have hmem : full rest b ∈ (C12.fetch r f).map (full rest) :=
      List.mem_map_of_mem (List.mem_filter.2 ⟨hb, hin⟩)
    simp only [Option.getD_some] at hs
    rw [← hs] at hmem
    obtain ⟨e, he, he2⟩ := List.mem_map.1 hmem
    obtain ⟨he1, hi⟩ := List.mem_filter.1 he
    have : e = (i, full rest b) := by
      obtain ⟨j, a⟩ := e
      simp only [beq_iff_eq] at hi
      simp only at he2
      rw [hi, he2]
    rw [← this]; exact he1
  · show overlaps r (full rest b).iv = true
    rw [ov_full]; exact hin

/-- **multi_index_is_own_file**: whatever is forwarded with bam index `i` is a record of file `i` (so the file name looked
    up for the read group is the name of the file that holds the record), and it overlaps the region it is forwarded for -/
theorem multi_index_is_own_file (m : Mode) (rest : Nat → Aln) (files : List (List C12.Aln)) (L : Int)
    (hv : ValidFiles files L) :
    ∃ out, collectM m rest files L = some out ∧
      ∀ p, p ∈ out → ∀ e, e ∈ p.2 →
        ∃ f, files[e.1]? = some f ∧ ∃ b, b ∈ f ∧ full rest b = e.2 ∧ overlaps p.1 e.2.iv = true := by
  obtain ⟨out, hout, hspec⟩ := multi_region_per_file_exact m rest files L hv
  refine ⟨out, hout, ?_⟩
  intro p hp e he
  have hs := hspec p hp e.1
  have hmem : e.2 ∈ (p.2.filter (fun x => x.1 == e.1)).map Prod.snd :=
    List.mem_map_of_mem (List.mem_filter.2 ⟨he, by simp⟩)
  rw [hs] at hmem
  obtain ⟨b, hb, hbe⟩ := List.mem_map.1 hmem
  obtain ⟨hbf, hin⟩ := List.mem_filter.1 hb
  cases hf : files[e.1]? with
  | none => rw [hf] at hbf; simp at hbf
  | some f =>
    rw [hf] at hbf
    refine ⟨f, rfl, b, hbf, hbe, ?_⟩
    rw [← hbe, ov_full]; exact hin

/-- **multi_memory_modes_same_multiset**: default mode and `--high_memory` forward the same sequence of regions and, region
    by region, the same multiset of `(file index, alignment)` pairs.  (Derived from the per-file specification alone;
    `multi_memory_modes_equal` below shows that even the order inside a region is the same.) -/
theorem multi_memory_modes_same_multiset (rest : Nat → Aln) (files : List (List C12.Aln)) (L : Int)
    (hv : ValidFiles files L) :
    ∃ om ob, collectM .memory rest files L = some om ∧ collectM .bam rest files L = some ob ∧
      Forall2 (fun p q => p.1 = q.1 ∧ p.2.Perm q.2) om ob := by
  refine ⟨_, _, collectM_eq .memory hv, collectM_eq .bam hv, ?_⟩
  apply forall2_flatMap
  intro ms hms
  apply forall2_map
  intro r hr
  refine ⟨rfl, perm_of_idx_eq (fun i => ?_)⟩
  rw [handed_spec .memory hv hms hr i, handed_spec .bam hv hms hr i]

/-- **merger_commutes_with_fetch**: `BAMOnlineMerger` over the re-fetched files yields the whole-chromosome merged stream
    restricted to the region IN THE SAME ORDER — although the k-way merge is not a sort (files are sorted by start only,
    ties on `(start, end)` are broken by file index, the order among equal starts inside a file is arbitrary) -/
theorem merger_commutes_with_fetch (files : List (List C12.Aln)) (hs : ∀ f ∈ files, Lemmas.C12.SortedStart f) (r : Iv) :
    C12.merge (files.map (C12.fetch r)) = (C12.merge files).filter (fun e => inR r e.2) :=
  merge_filter (inR r) (inR_upClosed r) files hs

/-- **multi_memory_modes_equal** (list equality): default mode and `--high_memory` hand exactly the same
    `(region, [(file index, alignment)])` sequence to `process_alignments_in_region`, also when the experiment has
    several files — the multi-file form of `Props.C05.memory_mode_equal` (used by C06) -/
theorem multi_memory_modes_equal (rest : Nat → Aln) (files : List (List C12.Aln)) (L : Int) (hv : ValidFiles files L) :
    collectM .memory rest files L = collectM .bam rest files L :=
  collectM_modes_eq rest hv

/-! ### read group by file name -/

/-- **multi_group_is_own_file**: with one name per file, the expression `bam_pairs[bam_index][1]` never raises for a
    forwarded pair and the file-name grouper returns the group of the file that holds the record -/
theorem multi_group_is_own_file (m : Mode) (rest : Nat → Aln) (files : List (List C12.Aln)) (L : Int)
    (hv : ValidFiles files L) (names : List String) (readable : String → Option String)
    (hn : names.length = files.length) :
    ∃ out, collectM m rest files L = some out ∧
      ∀ p, p ∈ out → ∀ e, e ∈ p.2 →
        ∃ f name, files[e.1]? = some f ∧ names[e.1]? = some name ∧ (∃ b, b ∈ f ∧ full rest b = e.2) ∧
          fileGroup names readable e.1 =
            some (match readable name with | some n => n | none => if name = "" then "NA" else name) := by
  obtain ⟨out, hout, hown⟩ := multi_index_is_own_file m rest files L hv
  refine ⟨out, hout, ?_⟩
  intro p hp e he
  obtain ⟨f, hf, b, hb, hbe, _⟩ := hown p hp e he
  have hlt : e.1 < names.length := by
    rw [hn]
    rcases Nat.lt_or_ge e.1 files.length with h | h
    · exact h
    · rw [List.getElem?_eq_none h] at hf; cases hf
  refine ⟨f, names[e.1], hf, List.getElem?_eq_getElem hlt, ⟨b, hb, hbe⟩, ?_⟩
  unfold fileGroup
  rw [List.getElem?_eq_getElem hlt]
  simp only
  cases readable names[e.1] with
  | some n => rfl
  | none => by_cases h : names[e.1] = "" <;> simp [h]

/-! ### statistics -/

/-- **multi_stats_equal_union**: the alignment statistics of a chromosome equal the per-category record counts of the
    union of the files (each record counted once, whatever file it is in and however the cluster is split) -/
theorem multi_stats_equal_union (rest : Nat → Aln) (files : List (List C12.Aln)) (L : Int) (hv : ValidFiles files L) :
    chromStats rest files L AlignmentType.secondary =
      ((files.flatten.map (full rest)).filter (fun a => a.secondary)).length ∧
    chromStats rest files L AlignmentType.supplementary =
      ((files.flatten.map (full rest)).filter (fun a => !a.secondary && a.supplementary)).length ∧
    chromStats rest files L AlignmentType.primary =
      ((files.flatten.map (full rest)).filter (fun a => !a.secondary && !a.supplementary && a.mapped)).length ∧
    chromStats rest files L AlignmentType.unaligned = 0 := by
  have hperm : ((scanStream rest files L).map Prod.snd).Perm (files.flatten.map (full rest)) := by
    rw [scan_eq rest hv, List.map_map]
    have := (Props.C12.merge_perm files).map (full rest)
    rw [List.map_map] at this
    exact this
  obtain ⟨h1, h2, h3, h4⟩ := Props.C05.stats_equal_categories ((scanStream rest files L).map Prod.snd)
  unfold chromStats
  rw [stats_eq]
  exact ⟨h1.trans (hperm.filter _).length_eq, h2.trans (hperm.filter _).length_eq, h3.trans (hperm.filter _).length_eq, h4⟩

/-- the count over the union of the files is the sum of the counts of the files -/
theorem union_count_is_sum {α β : Type} (g : α → β) (p : β → Bool) (files : List (List α)) :
    ((files.flatten.map g).filter p).length = (files.map (fun f => ((f.map g).filter p).length)).sum := by
  induction files with
  | nil => rfl
  | cons f fs ih =>
    simp only [List.flatten_cons, List.map_append, List.filter_append, List.length_append, List.map_cons, List.sum_cons, ih]

/-- **experiment_stats_equal_union**: the counter printed after "Alignments collected" (per-chromosome counters merged,
    then `bam.unmapped` of every file) = per category the sum over the chromosomes of the counts of the union of the
    files; `unaligned` = the sum of the unaligned reads of all files -/
theorem experiment_stats_equal_union (rest : Nat → Aln) (chroms : List (List (List C12.Aln) × Int)) (unmapped : List Nat)
    (hv : ∀ c, c ∈ chroms → ValidFiles c.1 c.2) :
    experimentStats rest chroms unmapped AlignmentType.secondary =
      (chroms.map (fun c => ((c.1.flatten.map (full rest)).filter (fun a => a.secondary)).length)).sum ∧
    experimentStats rest chroms unmapped AlignmentType.supplementary =
      (chroms.map (fun c => ((c.1.flatten.map (full rest)).filter (fun a => !a.secondary && a.supplementary)).length)).sum ∧
    experimentStats rest chroms unmapped AlignmentType.primary =
      (chroms.map (fun c => ((c.1.flatten.map (full rest)).filter
        (fun a => !a.secondary && !a.supplementary && a.mapped)).length)).sum ∧
    experimentStats rest chroms unmapped AlignmentType.unaligned = unmapped.sum := by
  have hs : ∀ c, c ∈ chroms → _ := fun c hc => multi_stats_equal_union rest c.1 c.2 (hv c hc)
  unfold experimentStats
  refine ⟨?_, ?_, ?_, ?_⟩
  · rw [addUnaligned_apply, if_neg (by decide), mergeFold_apply]
    simp only [Nat.zero_add]
    exact congrArg List.sum (List.map_congr_left (fun c hc => (hs c hc).1))
  · rw [addUnaligned_apply, if_neg (by decide), mergeFold_apply]
    simp only [Nat.zero_add]
    exact congrArg List.sum (List.map_congr_left (fun c hc => (hs c hc).2.1))
  · rw [addUnaligned_apply, if_neg (by decide), mergeFold_apply]
    simp only [Nat.zero_add]
    exact congrArg List.sum (List.map_congr_left (fun c hc => (hs c hc).2.2.1))
  · rw [addUnaligned_apply, if_pos rfl, mergeFold_apply]
    have : (chroms.map (fun c => chromStats rest c.1 c.2 AlignmentType.unaligned)).sum = 0 := by
      rw [List.map_congr_left (fun c hc => (hs c hc).2.2.2)]
      have hz : ∀ l : List (List (List C12.Aln) × Int), (l.map (fun _ => (0 : Nat))).sum = 0 := by
        intro l
        induction l with
        | nil => rfl
        | cons _ _ ih => simpa using ih
      exact hz chroms
    omega

/-! ### an additional file without records only shifts the file indices behind it -/

/-- **empty_file_changes_nothing** (list equality, both memory modes, no hypothesis on the files): inserting a file without
    records at position `j` leaves the forwarded regions and alignments exactly as they were, in the same order; only
    the bam indices `≥ j` grow by one.  Neither the priming of the merger nor the numbering of the files may depend
    on which files have a record in the region. -/
theorem empty_file_changes_nothing (m : Mode) (rest : Nat → Aln) (files : List (List C12.Aln)) (L : Int) (j : Nat)
    (hj : j ≤ files.length) :
    collectM m rest (insEmpty j files) L =
      (collectM m rest files L).map (fun out => out.map (fun p => (p.1, p.2.map (shiftF j)))) :=
  collectM_insEmpty m rest files L j hj

/-- the same for the statistics -/
theorem empty_file_same_stats (rest : Nat → Aln) (files : List (List C12.Aln)) (L : Int) (j : Nat)
    (hj : j ≤ files.length) : chromStats rest (insEmpty j files) L = chromStats rest files L :=
  chromStats_insEmpty rest files L j hj

/-! ### every tuple of files of full records is covered -/

/-- **tagging_faithful**: numbering the records of files of full alignments and reading the rest of each record off its
    number gives the files back — the tagged form used by the theorems above loses no generality -/
theorem tagging_faithful (files : List (List Aln)) :
    (tagFiles 0 files).map (fun f => f.map (full (restOf files.flatten.toArray))) = files := by
  have := tagFiles_full files [] []
  simpa using this

/-- `ValidFiles` read on files of full alignments -/
def ValidPlain (files : List (List Aln)) (L : Int) : Prop :=
  (∀ f, f ∈ files → SortedByStart f) ∧ ∀ a, a ∈ files.flatten → 0 ≤ a.start ∧ a.start < a.stop ∧ a.stop ≤ L

/-- **multi_every_alignment_forwarded_files**: the statement on files of full alignments — every alignment of every file
    is forwarded, in either memory mode, for at least one region it overlaps, with the index of its file -/
theorem multi_every_alignment_forwarded_files (m : Mode) (files : List (List Aln)) (L : Int) (hv : ValidPlain files L) :
    ∃ out, collectFiles m files L = some out ∧
      ∀ (i : Nat) (f : List Aln), files[i]? = some f → ∀ a, a ∈ f →
        ∃ p, p ∈ out ∧ (i, a) ∈ p.2 ∧ overlaps p.1 a.iv = true := by
  have hvt : ValidFiles (tagFiles 0 files) L := validFiles_tag files L hv.1 hv.2
  obtain ⟨out, hout, hfw⟩ := multi_every_alignment_forwarded m (restOf files.flatten.toArray) (tagFiles 0 files) L hvt
  refine ⟨out, hout, ?_⟩
  intro i f hfi a ha
  have ht := congrArg (fun l => l[i]?) (tagging_faithful files)
  simp only [List.getElem?_map, hfi] at ht
  cases htf : (tagFiles 0 files)[i]? with
  | none => rw [htf] at ht; cases ht
  | some tf =>
    rw [htf] at ht
    simp only [Option.map_some, Option.some.injEq] at ht
    rw [← ht] at ha
    obtain ⟨b, hb, rfl⟩ := List.mem_map.1 ha
    exact hfw i tf htf b hb

/-! ### non-vacuity -/

def exFiles : List (List C12.Aln) := [[⟨1, 5, 0⟩, ⟨3, 9, 1⟩], [], [⟨1, 4, 2⟩, ⟨30, 39, 3⟩]]
def exRest (t : Nat) : Aln := ⟨0, 0, t == 2, false, true, 60, t⟩

example : ValidFiles exFiles 100 := by
  refine ⟨?_, ?_⟩
  · unfold exFiles Lemmas.C12.SortedStart; decide
  · unfold exFiles; decide

-- three files, the middle one empty, a secondary record in the third: both modes, indices 0 and 2, statistics
example : (collectM .bam exRest exFiles 100).map (fun o => o.map (fun p => (p.1, p.2.map (fun e => (e.1, e.2.rid))))) =
      some [((1, 8), [(2, 2), (0, 0), (0, 1)]), ((30, 38), [(2, 3)])] ∧
    (collectM .memory exRest exFiles 100).map (fun o => o.map (fun p => (p.1, p.2.map (fun e => (e.1, e.2.rid))))) =
      some [((1, 8), [(2, 2), (0, 0), (0, 1)]), ((30, 38), [(2, 3)])] ∧
    chromStats exRest exFiles 100 AlignmentType.primary = 3 ∧ chromStats exRest exFiles 100 AlignmentType.secondary = 1 := by
  decide +kernel

-- ties on start with decreasing ends inside a file, a tie on (start, end) across files: merge of the fetched = fetch of the merged
example : (∀ f ∈ ([[⟨1, 9, 0⟩, ⟨1, 3, 1⟩, ⟨1, 7, 2⟩], [⟨1, 5, 3⟩, ⟨1, 7, 4⟩]] : List (List C12.Aln)), Lemmas.C12.SortedStart f) ∧
    C12.merge (([[⟨1, 9, 0⟩, ⟨1, 3, 1⟩, ⟨1, 7, 2⟩], [⟨1, 5, 3⟩, ⟨1, 7, 4⟩]] : List (List C12.Aln)).map (C12.fetch (4, 6))) =
      [(1, ⟨1, 5, 3⟩), (1, ⟨1, 7, 4⟩), (0, ⟨1, 9, 0⟩), (0, ⟨1, 7, 2⟩)] := by
  refine ⟨?_, by decide⟩
  unfold Lemmas.C12.SortedStart; decide

example : insEmpty 1 [[(⟨1, 5, 0⟩ : C12.Aln)], [⟨1, 4, 2⟩]] = [[⟨1, 5, 0⟩], [], [⟨1, 4, 2⟩]] ∧ (1 : Nat) ≤ [[(⟨1, 5, 0⟩ : C12.Aln)], [⟨1, 4, 2⟩]].length := by
  decide

example : ValidPlain [[⟨1, 5, false, false, true, 60, 0⟩], [⟨1, 4, true, false, true, 0, 1⟩]] 10 := by
  refine ⟨?_, ?_⟩
  · unfold SortedByStart; decide
  · decide

example : fileGroup ["a.bam", "b.bam"] (fun s => if s = "a.bam" then some "a" else none) 1 = some "b.bam" ∧
    ["a.bam", "b.bam"].length = [[(⟨1, 5, 0⟩ : C12.Aln)], [⟨1, 4, 2⟩]].length := by decide

end IsoVerif.Props.C05Multi
