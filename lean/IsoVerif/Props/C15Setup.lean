/-
C15, reuse clause — the RUN SET-UP of a restart (audit 2-C GAP 1-4, audit 2-B C09-3).

"A run restarted from saved assignments reproduces the outputs of the run that saved them", with the restart given the
options of the saving run (input option aside), for EVERY set-up of the saving run: number of input files of the
experiment, `--read_group` option (none / `file_name` / `tag:..` / `read_id:..` / `file:TABLE`), other experiments of the
invocation with several files, several prefixes on the restart's command line.

  MODEL      `_info` layout with the two set-up fields (Model/Serial.lean `writeInfoFileSetup`, `readSetup`);
             `set_data_dependent_options` (`effectiveReadGroup`), the first lines of `process_sample` of a BAM run
             (`savingSetup`) and of a restart (`restartSetup`; before the repair `restartSetupOrig`), one experiment per
             prefix from its own files (`restartAllS`); the two consumers of the set-up outside `downstream`:
             `groupedTablesWritten` (ReadAssignmentAggregator) and `replicaCheckPasses` (GraphBasedModelConstructor)
  PARAMETER  everything else of model construction and of the grouped counters: any function of (set-up, saved files) -
             `restart_is_second_half` gives equal set-ups and the restart reads the very files, so it is equal too
-/
import IsoVerif.Props.C15Reuse

namespace IsoVerif.Props.C15Setup
open IsoVerif.Gen IsoVerif.Model IsoVerif.Model.Serial IsoVerif.Model.Resolver IsoVerif.Model.C12 IsoVerif.Model.C15
open IsoVerif.Lemmas.Serial IsoVerif.Lemmas.C15
open IsoVerif.Props.C15Stream IsoVerif.Props.C15Reuse

/-! ## 1. the `_info` file with the set-up fields -/

/-- the six statements of `collect_reads` are the older file followed by the two new fields -/
theorem info_file_setup_layout (i : SaveInfo) (u : Int) (s : SavedSetup) :
    writeInfoFileSetup i u s = (writeInfoFile i u).bind (fun a => (writeSetup s).map (fun b => a ++ b)) := by
  unfold writeInfoFileSetup writeInfoFile writeSaveInfo writeSetup
  cases writeInt i.totalAssignments <;> cases writeInt i.polyaAssignments <;>
    cases writeList i.readGroups writeString <;> cases writeInt u <;> cases writeInt s.fileCount <;>
    cases writeStringOrNone s.readGroup <;> simp [seqW]

/-- `load_unaligned_reads` on a file that goes on after the count: the stored number, and what follows is left -/
theorem info_file_unaligned_rest (i : SaveInfo) (u : Int) (bs rest : Bytes) (henc : writeInfoFile i u = some bs) :
    readUnaligned.run (bs ++ rest) = some (u, rest) := by
  obtain ⟨hb, ub, h1, h3, rfl, _⟩ := info_file_head i u bs [] henc
  unfold readUnaligned
  rw [List.append_assoc, StateT.run_bind, save_info_decode_encode i hb (ub ++ rest) h1]
  have := RT_writeInt ser_LONG_INT_BYTES u ub rest trivial h3
  simpa using this

/-- a grouping mode that `write_string_or_none` does not confuse with `None` (a string of exactly 65535 UTF-8 bytes
    would be: `string_or_none_collision_witness`, Props/C15.lean) -/
def SetupDom (s : SavedSetup) : Prop := ∀ g, s.readGroup = some g → (utf8 g).length ≠ ser_NONE_STR_LEN

/-- **setup_file_roundtrip**: `load_run_setup` (before its `if read_group else None`) gives back the file count and the
    grouping mode `collect_reads` appended, and stops at the end of the file -/
theorem setup_file_roundtrip (i : SaveInfo) (u : Int) (s : SavedSetup) (bs sb : Bytes)
    (henc : writeInfoFile i u = some bs) (hs : writeSetup s = some sb) (hdom : SetupDom s) :
    readSetup.run (bs ++ sb) = some (s, []) := by
  unfold writeSetup at hs
  obtain ⟨nb, y, h1, h2, rfl⟩ := seqW_cons_eq_some_iff.mp hs
  obtain ⟨gb, z, h3, h4, rfl⟩ := seqW_cons_eq_some_iff.mp h2
  cases seqW_nil_eq_some_iff.mp h4
  have e1 := info_file_unaligned_rest i u bs (nb ++ (gb ++ [])) henc
  have e2 := RT_writeInt ser_LONG_INT_BYTES s.fileCount nb gb trivial h1
  have e3 := RT_writeStringOrNone s.readGroup gb [] hdom h3
  simp only [List.append_nil] at e1 e3 ⊢
  simp [readSetup, StateT.run_bind, e1, e2, e3]

/-- an `_info` file written before the set-up was stored (four fields, since fix cc73ffc): 0 files, the empty string -/
theorem old_info_file_setup (i : SaveInfo) (u : Int) (bs : Bytes) (henc : writeInfoFile i u = some bs) :
    readSetup.run bs = some ({ fileCount := 0, readGroup := some "" }, []) := by
  unfold readSetup
  rw [StateT.run_bind, info_file_unaligned i u bs henc]
  rfl

/-- ... and one of the oldest format (three fields) -/
theorem oldest_info_file_setup (i : SaveInfo) (bs : Bytes) (henc : writeSaveInfo i = some bs) :
    readSetup.run bs = some ({ fileCount := 0, readGroup := some "" }, []) := by
  unfold readSetup
  rw [StateT.run_bind, old_info_file_unaligned i bs henc]
  rfl

/-! ## 2. the set-up of the restart is the set-up of the saving run -/

theorem truthyStr_effective_none (r : Bool) : truthyStr (effectiveReadGroup none r) = effectiveReadGroup none r := by
  cases r <;> simp [effectiveReadGroup, truthyStr]

/-- **restart_setup_eq_saving**: for every `--read_group` option, every number of files of the experiment and whatever
    the other experiments of the saving invocation looked like, the restart that is given the same option - or none, when
    the saving run's option was not the empty string - works under the set-up the saving run worked under: same
    `args.read_group` (the implicit `file_name` included), same `args.use_technical_replicas`. -/
theorem restart_setup_eq_saving (cmdSaving cmdRestart : Option String) (otherReplicas : Bool) (fileCount : Nat)
    (hcmd : cmdRestart = cmdSaving ∨ (cmdRestart = none ∧ cmdSaving ≠ some "")) :
    restartSetup cmdRestart (savedSetupOf cmdSaving otherReplicas fileCount) =
      savingSetup cmdSaving otherReplicas fileCount := by
  have hcount : ∀ rg, mkSetup rg (if 0 < (fileCount : Int) then ((fileCount : Int)).toNat else 1) = mkSetup rg fileCount := by
    intro rg
    by_cases h0 : fileCount = 0
    · subst h0; simp [mkSetup]
    · have : 0 < fileCount := by omega
      simp [this]
  unfold restartSetup savedSetupOf savingSetup
  simp only
  rw [hcount]
  congr 1
  rcases hcmd with rfl | ⟨rfl, hne⟩
  · cases hc : cmdRestart with
    | none => simp [truthyStr_effective_none]
    | some c => simp [effectiveReadGroup]
  · cases hc : cmdSaving with
    | none => simp [truthyStr_effective_none]
    | some c =>
      have : c ≠ "" := fun h => hne (by rw [hc, h])
      simp [effectiveReadGroup, truthyStr, this]

/-- the two consumers of the set-up, declaratively: grouped tables exist iff a non-empty grouping mode is in force ... -/
theorem grouped_tables_iff (s : Setup) : groupedTablesWritten s = true ↔ ∃ g, s.readGroup = some g ∧ g ≠ "" := by
  unfold groupedTablesWritten truthyStr
  cases s.readGroup with
  | none => simp
  | some g => by_cases h : g = "" <;> simp [h]

/-- ... and a candidate novel chain survives the technical-replicas check iff the check is off or two of its reads carry
    different read groups -/
theorem replica_check_spec (s : Setup) (groups : List String) :
    replicaCheckPasses s groups = true ↔ s.useTechnicalReplicas = false ∨ ∃ a ∈ groups, ∃ b ∈ groups, a ≠ b := by
  have key : (groups.eraseDups.length ≤ 1) ↔ ¬ ∃ a ∈ groups, ∃ b ∈ groups, a ≠ b := by
    constructor
    · intro hlen ⟨a, ha, b, hb, hab⟩
      have ha' : a ∈ groups.eraseDups := List.mem_eraseDups.mpr ha
      have hb' : b ∈ groups.eraseDups := List.mem_eraseDups.mpr hb
      match hl : groups.eraseDups, hlen, ha', hb' with
      | [], _, ha', _ => cases ha'
      | [x], _, ha', hb' =>
        simp only [List.mem_cons, List.not_mem_nil, or_false] at ha' hb'
        exact hab (ha'.trans hb'.symm)
      | _ :: _ :: _, hlen, _, _ => simp at hlen
    · intro hno
      match groups with
      | [] => simp
      | a :: as =>
        have hf : as.filter (fun b => !b == a) = [] := by
          rw [List.filter_eq_nil_iff]
          intro b hb hne
          apply hno
          refine ⟨b, List.mem_cons_of_mem _ hb, a, List.mem_cons_self, ?_⟩
          intro h
          subst h
          simp at hne
        rw [List.eraseDups_cons, hf]
        simp
  unfold replicaCheckPasses
  cases hu : s.useTechnicalReplicas with
  | false => simp
  | true =>
    simp only [Bool.true_and, Bool.not_eq_true', decide_eq_false_iff_not, Bool.true_eq_false, false_or]
    rw [key]
    exact Classical.not_not

/-! ## 3. the restart is the second half of the saving run, set-up included -/

/-- the second half does not look beyond the three fields `load_read_info` reads -/
theorem processSaved_info_suffix (E : Env) (cfg : Config) (un : List Nat) (names : List String) (f : Saved)
    (i : SaveInfo) (u : Int) (sb : Bytes) (hinfo : writeInfoFile i u = some f.info) :
    processSaved E cfg un names { f with info := f.info ++ sb } = processSaved E cfg un names f := by
  obtain ⟨hb, ub, h1, _, hbs, _⟩ := info_file_head i u f.info [] hinfo
  unfold processSaved
  simp only
  have e1 : readSaveInfo.run (f.info ++ sb) = some (i, ub ++ sb) := by
    rw [hbs, List.append_assoc]; exact save_info_decode_encode i hb (ub ++ sb) h1
  have e2 : readSaveInfo.run f.info = some (i, ub) := by
    rw [hbs]; exact save_info_decode_encode i hb ub h1
  rw [e1, e2]
  cases (names.zip f.chrs).zipIdx.mapM (fun x => constructChr E cfg x.2 x.1.1 x.1.2) <;> rfl

theorem restartRun_info_suffix (E : Env) (cfg : Config) (names : List String) (f : Saved)
    (i : SaveInfo) (u : Int) (sb : Bytes) (hinfo : writeInfoFile i u = some f.info) :
    restartRun E cfg names { f with info := f.info ++ sb } = restartRun E cfg names f := by
  unfold restartRun
  simp only
  rw [info_file_unaligned_rest i u f.info sb hinfo, info_file_unaligned i u f.info hinfo]
  exact processSaved_info_suffix E cfg _ names f i u sb hinfo

/-- what a successful `collect_reads` with the set-up fields went through -/
theorem collectReadsS_unpack {E : Env} {hm : Bool} {readGroups : List String} {ua : Nat} {s : SavedSetup}
    {chroms : List ChrIn} {files : Saved} (h : collectReadsS E hm readGroups ua s chroms = some files) :
    ∃ f sb i, collectReads E hm readGroups ua chroms = some f ∧ writeSetup s = some sb ∧
      writeInfoFile i (ua : Int) = some f.info ∧ files = { f with info := f.info ++ sb } := by
  unfold collectReadsS at h
  cases hc : collectReads E hm readGroups ua chroms with
  | none => rw [hc] at h; cases h
  | some f =>
    cases hs : writeSetup s with
    | none => rw [hc, hs] at h; cases h
    | some sb =>
      rw [hc, hs] at h
      simp only [Option.some.injEq] at h
      obtain ⟨_, d, resolved, _, info, _, _, _, _, _, hi, rfl⟩ := collectReads_unpack hc
      exact ⟨_, sb, _, rfl, rfl, hi, h.symm⟩

/-- the `_info` file of `collectReadsS` is, byte for byte, the six statements of `collect_reads` -/
theorem collectReadsS_info {E : Env} {hm : Bool} {readGroups : List String} {ua : Nat} {s : SavedSetup}
    {chroms : List ChrIn} {files : Saved} (h : collectReadsS E hm readGroups ua s chroms = some files) :
    ∃ i, writeInfoFileSetup i (ua : Int) s = some files.info := by
  obtain ⟨f, sb, i, _, hs, hi, rfl⟩ := collectReadsS_unpack h
  exact ⟨i, by rw [info_file_setup_layout, hi, hs]; rfl⟩

/-- a saving run with the set-up fields computes what the run without them computes -/
theorem savingRunS_run (E : Env) (cfg : Config) (cmd : Option String) (other : Bool) (readGroups : List String)
    (unmapped : List Nat) (chroms : List ChrIn) (files : Saved) (s : Setup) (o : RunOut)
    (h : savingRunS E cfg cmd other readGroups unmapped chroms = some (files, s, o)) :
    ∃ f sb, savingRun E cfg readGroups unmapped chroms = some (f, o) ∧
      writeSetup (savedSetupOf cmd other unmapped.length) = some sb ∧ files = { f with info := f.info ++ sb } ∧
      s = savingSetup cmd other unmapped.length ∧ ∃ i, writeInfoFile i (countUnaligned unmapped : Int) = some f.info := by
  unfold savingRunS at h
  cases hc : collectReadsS E cfg.highMemory readGroups (countUnaligned unmapped)
      (savedSetupOf cmd other unmapped.length) chroms with
  | none => rw [hc] at h; cases h
  | some files' =>
    rw [hc] at h
    simp only [Option.map_eq_some_iff, Prod.mk.injEq] at h
    obtain ⟨o', ho', rfl, rfl, rfl⟩ := h
    obtain ⟨f, sb, i, hcr, hs, hi, rfl⟩ := collectReadsS_unpack hc
    refine ⟨f, sb, ?_, hs, ?_, ?_, i, hi⟩
    rotate_left
    · rfl
    · rfl
    rw [processSaved_info_suffix E cfg unmapped _ f i _ sb hi] at ho'
    unfold savingRun
    rw [hcr]
    simp only [ho', Option.map_some]

/-- **restart_is_second_half** (full strength over the run set-up): for every experiment - any number of input files,
    any `--read_group` option, whatever else the saving invocation held -, if the saving run wrote `files` and computed
    `o` under the set-up `s`, then the run restarted from `files` with the options of the saving run works under the SAME
    set-up (`args.read_group`, `args.use_technical_replicas`) and computes the same `o` (loaded `_info`, records, count
    and TPM tables, `__not_aligned`).  Hypothesis: the grouping mode is not a string of exactly 65535 bytes. -/
theorem restart_is_second_half (E : Env) (cfg : Config) (cmd cmdRestart : Option String) (other : Bool)
    (readGroups : List String) (unmapped : List Nat) (chroms : List ChrIn) (files : Saved) (s : Setup) (o : RunOut)
    (h : savingRunS E cfg cmd other readGroups unmapped chroms = some (files, s, o))
    (hcmd : cmdRestart = cmd ∨ (cmdRestart = none ∧ cmd ≠ some ""))
    (hdom : SetupDom (savedSetupOf cmd other unmapped.length)) :
    restartRunS E cfg cmdRestart (chroms.map (·.name)) files = some (s, o) := by
  obtain ⟨f, sb, hrun, hs, rfl, rfl, i, hi⟩ := savingRunS_run E cfg cmd other readGroups unmapped chroms files s o h
  unfold restartRunS
  simp only
  rw [setup_file_roundtrip i _ _ f.info sb hi hs hdom]
  simp only
  rw [restartRun_info_suffix E cfg _ f i _ sb hi,
    restart_is_second_half_files E cfg readGroups unmapped chroms f o hrun,
    restart_setup_eq_saving cmd cmdRestart other unmapped.length hcmd]
  rfl

/-- everything of the second half that is outside `downstream` (transcript model construction with its
    technical-replicas check, grouped counters and which tables are written) is some function of the set-up and of the
    saved files: the restart evaluates it on the saving run's arguments -/
theorem restart_same_arguments {α : Type} (F : Setup → Saved → α) (E : Env) (cfg : Config) (cmd : Option String)
    (other : Bool) (readGroups : List String) (unmapped : List Nat) (chroms : List ChrIn) (files : Saved) (s : Setup)
    (o : RunOut) (h : savingRunS E cfg cmd other readGroups unmapped chroms = some (files, s, o))
    (hdom : SetupDom (savedSetupOf cmd other unmapped.length)) :
    (restartRunS E cfg cmd (chroms.map (·.name)) files).map (fun x => F x.1 files) = some (F s files) := by
  rw [restart_is_second_half E cfg cmd cmd other readGroups unmapped chroms files s o h (Or.inl rfl) hdom]
  rfl

/-- one experiment of a BAM invocation, as the restart will meet it -/
structure SavedExperiment where
  cmd : Option String
  other : Bool
  readGroups : List String
  unmapped : List Nat
  chroms : List ChrIn

/-- **restart_all_prefixes**: `--read_assignments P0 P1 ...` without `--read_group` - prefixes saved by any BAM
    invocations (different numbers of files, different grouping modes): every experiment of the restart reproduces the
    set-up and the outputs of the run that saved ITS prefix; nothing carries over from one prefix to the next. -/
theorem restart_all_prefixes (E : Env) (cfg : Config) (exps : List (SavedExperiment × Saved × Setup × RunOut))
    (h : ∀ x ∈ exps, savingRunS E cfg x.1.cmd x.1.other x.1.readGroups x.1.unmapped x.1.chroms = some x.2 ∧
      x.1.cmd ≠ some "" ∧ SetupDom (savedSetupOf x.1.cmd x.1.other x.1.unmapped.length)) :
    restartAllS E cfg none (exps.map (fun x => (x.1.chroms.map (·.name), x.2.1))) = exps.map (fun x => some x.2.2) := by
  unfold restartAllS
  rw [List.map_map]
  apply List.map_congr_left
  intro x hx
  obtain ⟨hs, hne, hd⟩ := h x hx
  exact restart_is_second_half E cfg x.1.cmd none x.1.other x.1.readGroups x.1.unmapped x.1.chroms x.2.1 x.2.2.1 x.2.2.2
    hs (Or.inr ⟨rfl, hne⟩) hd

/-- a save folder of an older format is still accepted and the restart behaves as it did before the repair:
    its own command line, one "file" -/
theorem restart_on_old_info_file_setup (E : Env) (cfg : Config) (cmd : Option String) (names : List String)
    (files : Saved) (i : SaveInfo) (u : Int) (hold : writeInfoFile i u = some files.info) :
    restartRunS E cfg cmd names files = restartRunOrigS E cfg cmd names files := by
  unfold restartRunS restartRunOrigS
  rw [old_info_file_setup i u files.info hold]
  simp only
  have : restartSetup cmd { fileCount := 0, readGroup := some "" } = restartSetupOrig cmd := by
    unfold restartSetup restartSetupOrig
    cases cmd <;> simp [truthyStr]
  rw [this]

theorem restart_on_oldest_info_file_setup (E : Env) (cfg : Config) (cmd : Option String) (names : List String)
    (files : Saved) (i : SaveInfo) (hold : writeSaveInfo i = some files.info) :
    restartRunS E cfg cmd names files = restartRunOrigS E cfg cmd names files := by
  unfold restartRunS restartRunOrigS
  rw [oldest_info_file_setup i files.info hold]
  simp only
  have : restartSetup cmd { fileCount := 0, readGroup := some "" } = restartSetupOrig cmd := by
    unfold restartSetup restartSetupOrig
    cases cmd <;> simp [truthyStr]
  rw [this]

/-! ## 4. non-vacuity and the witnesses of the old behaviour -/

-- the hypotheses of `restart_is_second_half` are met by the concrete experiment of Props/C15Reuse.lean saved from TWO
-- files without --read_group, and everything computes: set-up (file_name, replicas on), `_info` ends with 2, "file_name"
example : SetupDom (savedSetupOf none false 2) ∧ SetupDom (savedSetupOf (some "file:/data/groups.tsv") true 1) := by
  refine ⟨?_, ?_⟩ <;> (intro g hg; simp only [savedSetupOf, effectiveReadGroup] at hg; cases hg; decide +kernel)

example :
    (savingRunS exEnv (exCfg false) none false ["rep1", "rep2"] [2, 3] exChroms).map (fun x => x.2.1) =
      some { readGroup := some "file_name", useTechnicalReplicas := true } ∧
    ((savingRunS exEnv (exCfg false) none false ["rep1", "rep2"] [2, 3] exChroms).bind (fun x =>
        (restartRunS exEnv (exCfg false) none ["c1", "c2"] x.1).map (fun y =>
          (y.1, y.2.out.geneCounts.notAligned, decide (y.2.info = x.2.2.info),
           decide (y.2.out.transcriptCounts.rows = x.2.2.out.transcriptCounts.rows))))) =
      some ({ readGroup := some "file_name", useTechnicalReplicas := true }, 5, true, true) ∧
    ((savingRunS exEnv (exCfg false) none false ["rep1", "rep2"] [2, 3] exChroms).bind (fun x =>
        (readSetup.run x.1.info).map (·.1))) = some { fileCount := 2, readGroup := some "file_name" } := by
  refine ⟨by decide +kernel, by decide +kernel, by decide +kernel⟩

-- the `_info` bytes: the new fields come back, the older readers are undisturbed, older files read as (0, "")
example :
    ((writeInfoFile ⟨17, 5, ["NA", "g1"]⟩ 7).bind fun bs => (writeSetup ⟨2, some "file_name"⟩).bind fun sb =>
        readSetup.run (bs ++ sb)) = some (⟨2, some "file_name"⟩, []) ∧
    ((writeInfoFileSetup ⟨17, 5, ["NA", "g1"]⟩ 7 ⟨2, none⟩).bind fun bs => readSetup.run bs) = some (⟨2, none⟩, []) ∧
    ((writeInfoFileSetup ⟨17, 5, ["NA", "g1"]⟩ 7 ⟨2, none⟩).bind fun bs => readUnaligned.run bs) =
      some (7, [0, 0, 0, 2, 255, 255]) ∧
    ((writeInfoFile ⟨17, 5, ["NA", "g1"]⟩ 7).bind fun bs => readSetup.run bs) = some (⟨0, some ""⟩, []) ∧
    ((writeSaveInfo ⟨17, 5, ["NA", "g1"]⟩).bind fun bs => readSetup.run bs) = some (⟨0, some ""⟩, []) := by
  refine ⟨?_, ?_, ?_, ?_, ?_⟩ <;> decide +kernel

-- both disjuncts of `restart_setup_eq_saving`'s hypothesis are inhabited, and the set-ups they talk about are not trivial
example : restartSetup (some "tag:CB") (savedSetupOf (some "tag:CB") true 3) = ⟨some "tag:CB", false⟩ ∧
    restartSetup none (savedSetupOf (some "file_name") false 3) = ⟨some "file_name", true⟩ ∧
    restartSetup none (savedSetupOf none true 1) = ⟨some "file_name", false⟩ ∧
    restartSetup none (savedSetupOf none false 1) = ⟨none, false⟩ := by
  refine ⟨?_, ?_, ?_, ?_⟩ <;> decide +kernel

-- the hypotheses of `restart_all_prefixes` on the two saved experiments of `restart_prefixes_witness` below
example : SetupDom (savedSetupOf none false [2, 3].length) ∧ SetupDom (savedSetupOf none false [0].length) ∧
    (none : Option String) ≠ some "" := by
  refine ⟨?_, ?_, by decide⟩ <;> (intro g hg; simp only [savedSetupOf, effectiveReadGroup] at hg; cases hg <;> decide +kernel)

/-- **restart_setup_lost_witness** (the defect, against `restartSetupOrig` / `restartRunOrigS`): two files, eight reads
    of a novel chain all from `rep1`.
    (1) `--read_group file_name` in both runs: the saving run has the replicas check on and drops the chain, the old
        restart (one "file": the prefix) has it off and reports the chain - 5 models vs 6;
    (2) no `--read_group`: the saving run groups by file name implicitly and writes the grouped tables, the old restart
        writes none;
    (3) end to end on the concrete experiment: the old restart from the saving run's own files works under another
        set-up, the repaired one under the saving run's. -/
theorem restart_setup_lost_witness :
    (replicaCheckPasses (savingSetup (some "file_name") false 2) (List.replicate 8 "rep1") = false ∧
     replicaCheckPasses (restartSetupOrig (some "file_name")) (List.replicate 8 "rep1") = true ∧
     replicaCheckPasses (restartSetup (some "file_name") (savedSetupOf (some "file_name") false 2))
       (List.replicate 8 "rep1") = false) ∧
    (groupedTablesWritten (savingSetup none false 2) = true ∧ groupedTablesWritten (restartSetupOrig none) = false ∧
     groupedTablesWritten (restartSetup none (savedSetupOf none false 2)) = true) ∧
    ((savingRunS exEnv (exCfg false) none false ["rep1", "rep2"] [2, 3] exChroms).bind (fun x =>
        (restartRunOrigS exEnv (exCfg false) none ["c1", "c2"] x.1).map (fun y => (y.1, decide (y.1 = x.2.1))))) =
      some ({ readGroup := none, useTechnicalReplicas := false }, false) := by
  refine ⟨⟨by decide +kernel, by decide +kernel, by decide +kernel⟩,
          ⟨by decide +kernel, by decide +kernel, by decide +kernel⟩, by decide +kernel⟩

/-- a second experiment: one file, one read on c2 -/
def exChroms2 : List ChrIn :=
  [{ name := "c1", groups := [] },
   { name := "c2", groups := [({ exHeader with chrId := "c2", geneIds := ["G2"] }, [mkRA 7 "rb" "c2" "G2" "T2" false 0])] }]

/-- the two saving runs and the prefixes handed to `--read_assignments` -/
def exSavedA : Option (Saved × Setup × RunOut) :=
  savingRunS exEnv (exCfg false) none false ["rep1", "rep2"] [2, 3] exChroms
def exSavedB : Option (Saved × Setup × RunOut) := savingRunS exEnv (exCfg false) none false ["NA"] [0] exChroms2
def exPrefixes : Option (List (List String × Saved)) :=
  exSavedA.bind (fun a => exSavedB.map (fun b => [(["c1", "c2"], a.1), (["c1", "c2"], b.1)]))

/-- **restart_prefixes_witness**: `--read_assignments P0 P1` before the repair. The command line was refused
    (IndexError) - and with only that line repaired every experiment was computed from the files of the FIRST prefix:
    the second experiment of the restart shows the first one's tables; the repaired restart reproduces both runs. -/
theorem restart_prefixes_witness :
    (exPrefixes.map (fun exps => (restartAllOrig exEnv (exCfg false) none exps).isNone)) = some true ∧
    (exPrefixes.map (fun exps => (restartAllFirstPrefix exEnv (exCfg false) none exps).map
        (fun r => r.map (fun y => y.2.out.transcriptCounts.rows)))) =
      some [some [(6, 100), (7, 100)], some [(6, 100), (7, 100)]] ∧
    (exSavedA.map (fun a => (a.2.1, a.2.2.out.transcriptCounts.rows)),
     exSavedB.map (fun b => (b.2.1, b.2.2.out.transcriptCounts.rows))) =
      (some ({ readGroup := some "file_name", useTechnicalReplicas := true }, [(6, 100), (7, 100)]),
       some ({ readGroup := none, useTechnicalReplicas := false }, [(6, 0), (7, 100)])) ∧
    (exPrefixes.map (fun exps => (restartAllS exEnv (exCfg false) none exps).map
        (fun r => r.map (fun y => (y.1, y.2.out.transcriptCounts.rows))))) =
      some [some ({ readGroup := some "file_name", useTechnicalReplicas := true }, [(6, 100), (7, 100)]),
            some ({ readGroup := none, useTechnicalReplicas := false }, [(6, 0), (7, 100)])] := by
  refine ⟨by decide +kernel, by decide +kernel, by decide +kernel, by decide +kernel⟩

end IsoVerif.Props.C15Setup
