/-
C14 (part 2) — `ExonCorrector.correct_assigned_read / process_events` over an ARBITRARY event list
(the events of the unmodelled junction comparator, the error counts of the unmodelled `get_error_count` and the
annotation are universally quantified inputs).  Property theorems only.
-/
import IsoVerif.Gen.Prims
import IsoVerif.Gen.Strategies
import IsoVerif.Gen.Corrector
import IsoVerif.Model.Bed
import IsoVerif.Model.Corrector
import IsoVerif.Lemmas.Interval
import IsoVerif.Lemmas.Corrector
import IsoVerif.Lemmas.CorrectorLoop
import IsoVerif.Lemmas.CorrectorMatch
import IsoVerif.Props.C14

namespace IsoVerif.Props.C14Corrector
open IsoVerif.Gen IsoVerif.Model IsoVerif.Model.C14 IsoVerif.Lemmas IsoVerif.Lemmas.C14 IsoVerif.Props.C14

/-! ### `--splice_correction_strategy none` is the identity -/

/-- **strategy_none_identity**: with the flags of strategy `none` (looked up in the table generated from
    `set_splice_correction_options`), for every gapped exon list, every event list whose read regions are sentinels
    or index ranges of the read introns, every annotation, every error-count function and both values of the
    `noninformative` test, `correct_assigned_read` returns the read's own exons. -/
theorem strategy_none_identity (p : CParams) (hnone : correction_presets.lookup "none" = some p.fl)
    (err : Nat → Bool → Int × Int) (known : List Iv) (noninformative : Bool) (events : Option (List MEvent))
    (isoRegion : Iv) (isoIntrons : List Iv) (exons : List Iv) (hne : exons ≠ []) (hg : Spaced exons)
    (hw : ∀ evs, events = some evs → WellFormedRegions (junctionsFromBlocks exons).length evs) :
    correctAssignedRead p err known noninformative events isoRegion isoIntrons exons = .ok exons := by
  have hp : p.fl = allOff := by
    have := none_all_off
    rw [hnone] at this
    exact Option.some.inj this
  unfold correctAssignedRead
  cases events with
  | none => rfl
  | some evs =>
    simp only
    split
    · rfl
    · rename_i hcond
      cases exons with
      | nil => exact absurd rfl hne
      | cons a rest =>
        cases rest with
        | nil => simp at hcond
        | cons b rest' =>
          obtain ⟨t, ht⟩ := getLast?_cons_some a (b :: rest')
          simp only [List.head?_cons, ht]
          have hmicro : p.fl.microintron_retention = false := by rw [hp]; rfl
          have hfz : p.fl.fuzzy_junctions = false := by rw [hp]; rfl
          have hcorr : correctedIntrons p err known (junctionsFromBlocks (a :: b :: rest'))
              = junctionsFromBlocks (a :: b :: rest') := by simp [correctedIntrons, hfz]
          have hm := buildEventMap_wf (hw evs rfl)
          simp only [processEvents, hcorr, hmicro, buildMicroMap_off]
          rw [eventLoop_off hp _ _ _ _ _ hm _ 0 _ [] (by omega) (by omega) (by simp [eventFuel]; omega)]
          simp only [Int.toNat_zero, List.drop_zero, List.nil_append]
          rw [chain_of_junctions a b rest' hg t ht]
          have hv : validChain (a :: b :: rest') = true :=
            (validChain_iff _).mpr ⟨Spaced_WFl hg, Spaced_SD hg⟩
          have hvi : validIntronChain (junctionsFromBlocks (a :: b :: rest')) = true :=
            (validIntronChain_iff _).mpr (junctions_spaced _ hg)
          simp [hv, hvi]

-- non-vacuity: a three-exon read with a well-formed event list; the theorem applies and the model computes
example : Spaced [(10, 20), (31, 40), (61, 70)] ∧
    WellFormedRegions (junctionsFromBlocks [(10, 20), (31, 40), (61, 70)]).length
      [⟨MatchEventSubtype.intron_shift, (0, 0), (1, 1)⟩, ⟨MatchEventSubtype.fake_terminal_exon_left, (0, 0), (0, 0)⟩,
       ⟨MatchEventSubtype.fake_micro_intron_retention, (1, 1), (absentPosition, 1)⟩] := by
  refine ⟨by decide, ?_⟩
  intro e he
  simp at he
  rcases he with rfl | rfl | rfl
  · right; right; decide
  · right; right; decide
  · right; left; decide


/-! ### what `correct_assigned_read` returns -/

/-- either the read's own exons (one exon, noninformative assignment, no isoform match, or a correction that was
    discarded by the validity gate) or the valid exon chain built from the region and introns that `process_events`
    returns on the event map of the first isoform match -/
theorem correct_assigned_read_cases (p : CParams) (err : Nat → Bool → Int × Int) (known : List Iv)
    (noninformative : Bool) (events : Option (List MEvent)) (isoRegion : Iv) (isoIntrons : List Iv)
    (exons out : List Iv)
    (h : correctAssignedRead p err known noninformative events isoRegion isoIntrons exons = .ok out) :
    out = exons ∨
    ∃ f l evs reg ni, exons.head? = some f ∧ exons.getLast? = some l ∧ events = some evs ∧
      processEvents p err known (buildEventMap evs) (buildMicroMap p.fl.microintron_retention evs) (f.1, l.2)
        (junctionsFromBlocks exons) isoRegion isoIntrons = .ok (reg, ni) ∧
      out = buildExons reg ni ∧ validChain out = true := by
  unfold correctAssignedRead at h
  cases events with
  | none => simp at h; exact Or.inl h.symm
  | some evs =>
    simp only at h
    split at h
    · simp at h; exact Or.inl h.symm
    · cases hf : exons.head? with
      | none => simp [hf] at h
      | some f =>
        cases hl : exons.getLast? with
        | none => simp [hf, hl] at h
        | some l =>
          simp only [hf, hl] at h
          cases hp : processEvents p err known (buildEventMap evs) (buildMicroMap p.fl.microintron_retention evs) (f.1, l.2)
              (junctionsFromBlocks exons) isoRegion isoIntrons with
          | error x => simp [hp] at h
          | ok q =>
            obtain ⟨reg, ni⟩ := q
            simp only [hp] at h
            split at h
            · rename_i hv
              simp at h
              have hv2 := (Bool.and_eq_true _ _).mp hv
              exact Or.inr ⟨f, l, evs, reg, ni, rfl, rfl, rfl, hp, h.symm, by rw [← h]; exact hv2.2⟩
            · simp at h; exact Or.inl h.symm

/-- **corrected_always_valid** (after the `fix:` commit that added the validity gate): for EVERY event list,
    annotation, error function and flag setting, if the read's exons are a sorted disjoint well-formed block list
    then so is the corrected alignment — no assumption on the junction comparator is left -/
theorem corrected_always_valid (p : CParams) (err : Nat → Bool → Int × Int) (known : List Iv)
    (noninformative : Bool) (events : Option (List MEvent)) (isoRegion : Iv) (isoIntrons : List Iv)
    (exons out : List Iv) (hsd : SD exons) (hw : WFl exons)
    (h : correctAssignedRead p err known noninformative events isoRegion isoIntrons exons = .ok out) :
    SD out ∧ WFl out := by
  rcases correct_assigned_read_cases p err known noninformative events isoRegion isoIntrons exons out h with
    h1 | ⟨_, _, _, _, _, _, _, _, _, _, hv⟩
  · subst h1; exact ⟨hsd, hw⟩
  · have := (validChain_iff out).mp hv
    exact ⟨this.2, this.1⟩

/-- the gate is what makes this true: without it (the code before the fix) a read whose last exon (1797,1800) is
    shorter than `delta` and whose last intron (1501,1796) is within `delta` of the annotated intron (1501,1800) gets
    the empty last block (1801,1800) under every default strategy (seen in corrected_reads.bed as block size 0) -/
theorem corrected_valid_buggy_witness :
    correctAssignedReadBuggy ⟨⟨true, false, true, false, true, true⟩, 6⟩ (fun _ _ => (0, 4)) [(1201, 1300), (1501, 1800)]
      false (some []) (1001, 2000) [(1201, 1300), (1501, 1800)] [(1050, 1200), (1301, 1500), (1797, 1800)]
      = .ok [(1050, 1200), (1301, 1500), (1801, 1800)] ∧
    correctAssignedRead ⟨⟨true, false, true, false, true, true⟩, 6⟩ (fun _ _ => (0, 4)) [(1201, 1300), (1501, 1800)]
      false (some []) (1001, 2000) [(1201, 1300), (1501, 1800)] [(1050, 1200), (1301, 1500), (1797, 1800)]
      = .ok [(1050, 1200), (1301, 1500), (1797, 1800)] := by
  decide +kernel

/-- the outer ends of the exon chain are the ends of the region -/
theorem build_exons_ends (reg : Iv) (ni : List Iv) :
    ∃ f l, (buildExons reg ni).head? = some f ∧ (buildExons reg ni).getLast? = some l ∧ f.1 = reg.1 ∧ l.2 = reg.2 := by
  cases ni with
  | nil => exact ⟨reg, reg, by simp [buildExons], by simp [buildExons], rfl, rfl⟩
  | cons a rest =>
    obtain ⟨t, ht⟩ := getLast?_cons_some a rest
    rw [buildExons_cons reg a rest t ht]
    exact ⟨(reg.1, a.1 - 1), (t.2 + 1, reg.2), by simp [chain], getLast?_cons_concat _ _ _, rfl, rfl⟩

/-! ### ends are preserved unless an enabled terminal correction applies -/

/-- allowed start of the corrected region: the read's own start, or (flag `fake_terminal_exons`) the base after a
    read intron named by a `fake_terminal_exon_left` event, or (flag `terminal_exons`) the assigned isoform's start
    when a `terminal_exon_misalignment_left` event is present -/
def StartAllowed (p : CParams) (emap : List (Int × MEvent)) (readIntrons : List Iv) (isoRegion readRegion : Iv)
    (v : Int) : Prop :=
  v = readRegion.1 ∨
  (p.fl.fake_terminal_exons = true ∧ ∃ k e x, emap.lookup k = some e ∧
      e.etype = MatchEventSubtype.fake_terminal_exon_left ∧ pyGet? readIntrons e.read.1 = some x ∧ v = x.2 + 1) ∨
  (p.fl.terminal_exons = true ∧ ∃ k e, emap.lookup k = some e ∧
      e.etype = MatchEventSubtype.terminal_exon_misalignment_left ∧ v = isoRegion.1)

def EndAllowed (p : CParams) (emap : List (Int × MEvent)) (readIntrons : List Iv) (isoRegion readRegion : Iv)
    (v : Int) : Prop :=
  v = readRegion.2 ∨
  (p.fl.fake_terminal_exons = true ∧ ∃ k e x, emap.lookup k = some e ∧
      e.etype = MatchEventSubtype.fake_terminal_exon_right ∧ pyGet? readIntrons e.read.1 = some x ∧ v = x.1 - 1) ∨
  (p.fl.terminal_exons = true ∧ ∃ k e, emap.lookup k = some e ∧
      e.etype = MatchEventSubtype.terminal_exon_misalignment_right ∧ v = isoRegion.2)

/-- **ends_preserved_unless_terminal** (`process_events`, for every event map, annotation and error function):
    each end of the returned region is the read's own end unless one of the four terminal branches, guarded by its
    strategy flag, was taken for an event of the map -/
theorem ends_preserved_unless_terminal (p : CParams) (err : Nat → Bool → Int × Int) (known : List Iv)
    (emap : List (Int × MEvent)) (mm : List (Int × Int)) (readRegion : Iv) (readIntrons : List Iv) (isoRegion : Iv)
    (isoIntrons : List Iv)
    (reg : Iv) (ni : List Iv)
    (h : processEvents p err known emap mm readRegion readIntrons isoRegion isoIntrons = .ok (reg, ni)) :
    StartAllowed p emap readIntrons isoRegion readRegion reg.1 ∧
    EndAllowed p emap readIntrons isoRegion readRegion reg.2 := by
  unfold processEvents at h
  refine eventLoop_invariant p emap mm readRegion readIntrons _ isoRegion isoIntrons
    (fun r _ => StartAllowed p emap readIntrons isoRegion readRegion r.1 ∧
                EndAllowed p emap readIntrons isoRegion readRegion r.2)
    (fun _ _ _ _ _ hi => hi) (fun _ _ _ _ _ hi => hi) ?_ _ 0 readRegion [] reg ni ⟨Or.inl rfl, Or.inl rfl⟩ h
  intro i e r acc r' acc' hl hs hi
  obtain ⟨hc, _⟩ := eventStep_ok hs
  cases hc with
  | keep hk => rw [hk]; exact hi
  | fakeLeft x hf ht hx hr => rw [hr]; exact ⟨Or.inr (Or.inl ⟨hf, i, e, x, hl, ht, hx, rfl⟩), hi.2⟩
  | fakeRight x hf ht hx hr => rw [hr]; exact ⟨hi.1, Or.inr (Or.inl ⟨hf, i, e, x, hl, ht, hx, rfl⟩)⟩
  | termLeft hf ht hr => rw [hr]; exact ⟨Or.inr (Or.inr ⟨hf, i, e, hl, ht, rfl⟩), hi.2⟩
  | termRight hf ht hr => rw [hr]; exact ⟨hi.1, Or.inr (Or.inr ⟨hf, i, e, hl, ht, rfl⟩)⟩

/-- corollary: a strategy without the two terminal flags never moves an end -/
theorem ends_preserved_without_terminal_flags (p : CParams) (hf : p.fl.fake_terminal_exons = false)
    (ht : p.fl.terminal_exons = false) (err : Nat → Bool → Int × Int) (known : List Iv)
    (emap : List (Int × MEvent)) (mm : List (Int × Int)) (readRegion : Iv) (readIntrons : List Iv) (isoRegion : Iv)
    (isoIntrons : List Iv)
    (reg : Iv) (ni : List Iv)
    (h : processEvents p err known emap mm readRegion readIntrons isoRegion isoIntrons = .ok (reg, ni)) :
    reg = readRegion := by
  obtain ⟨h1, h2⟩ := ends_preserved_unless_terminal p err known emap mm readRegion readIntrons isoRegion isoIntrons reg ni h
  have e1 : reg.1 = readRegion.1 := by
    rcases h1 with h1 | ⟨h1, _⟩ | ⟨h1, _⟩
    · exact h1
    · rw [hf] at h1; cases h1
    · rw [ht] at h1; cases h1
  have e2 : reg.2 = readRegion.2 := by
    rcases h2 with h2 | ⟨h2, _⟩ | ⟨h2, _⟩
    · exact h2
    · rw [hf] at h2; cases h2
    · rw [ht] at h2; cases h2
  ext <;> assumption

/-- which generated presets have neither terminal flag (so the corollary applies to them) -/
theorem presets_without_terminal_flags :
    (correction_presets.filter (fun q => !q.2.fake_terminal_exons && !q.2.terminal_exons)).map (·.1) =
      ["none", "default_pacbio", "conservative_ont", "assembly"] := by decide

/-- the same statement for the corrected alignment returned by `correct_assigned_read`: its first block starts and
    its last block ends at an allowed position -/
theorem corrected_read_ends (p : CParams) (err : Nat → Bool → Int × Int) (known : List Iv) (noninformative : Bool)
    (evs : List MEvent) (isoRegion : Iv) (isoIntrons : List Iv) (exons out : List Iv) (f l : Iv)
    (hf : exons.head? = some f) (hl : exons.getLast? = some l)
    (h : correctAssignedRead p err known noninformative (some evs) isoRegion isoIntrons exons = .ok out) :
    ∃ f' l', out.head? = some f' ∧ out.getLast? = some l' ∧
      StartAllowed p (buildEventMap evs) (junctionsFromBlocks exons) isoRegion (f.1, l.2) f'.1 ∧
      EndAllowed p (buildEventMap evs) (junctionsFromBlocks exons) isoRegion (f.1, l.2) l'.2 := by
  rcases correct_assigned_read_cases p err known noninformative (some evs) isoRegion isoIntrons exons out h with
    h1 | ⟨f2, l2, evs2, reg, ni, hf2, hl2, he, hp, ho, _⟩
  · subst h1
    exact ⟨f, l, hf, hl, Or.inl rfl, Or.inl rfl⟩
  · rw [hf] at hf2; rw [hl] at hl2
    cases hf2; cases hl2; cases he
    obtain ⟨a, b⟩ := ends_preserved_unless_terminal p err known _ _ _ _ isoRegion isoIntrons reg ni hp
    obtain ⟨f', l', h1, h2, h3, h4⟩ := build_exons_ends reg ni
    subst ho
    exact ⟨f', l', h1, h2, by rw [h3]; exact a, by rw [h4]; exact b⟩

/-! ### provenance of the splice sites -/

/-- an intron of the assigned isoform whose (Python) index is named by an event of the map, or by a retained
    micro intron (`mm`: the `(read exon, isoform intron index)` bindings of the `fake_micro_intron_retention` events) -/
def NamedIsoformIntron (emap : List (Int × MEvent)) (mm : List (Int × Int)) (isoIntrons : List Iv) (n : Iv) : Prop :=
  n ∈ isoIntrons ∧
    ((∃ k e j, emap.lookup k = some e ∧ ((e.iso.1 ≤ j ∧ j ≤ e.iso.2) ∨ j = e.iso.1) ∧ pyGet? isoIntrons j = some n) ∨
     (∃ q ∈ mm, pyGet? isoIntrons q.2 = some n))

/-- "best-matching": the candidate chosen for a read feature has the smallest total site distance among the known
    features that the sweep collected for it (ties: the first in annotation order) -/
theorem pickBest_closest {r : Iv} {cs : List Iv} {k : Iv} (h : pickBest r cs = some k) :
    ∀ c ∈ cs, siteDelta r k ≤ siteDelta r c := by
  unfold pickBest at h
  split at h
  · cases hm : listMin (cs.map (siteDelta r)) with
    | none => simp [hm] at h
    | some best =>
      simp only [hm] at h
      have hk := List.mem_of_mem_head? h
      have hkb : siteDelta r k = best := by simpa using (List.mem_filter.mp hk).2
      obtain ⟨_, hmin⟩ := listMin_spec hm
      intro c hc
      rw [hkb]
      exact hmin _ (List.mem_map.mpr ⟨c, hc, rfl⟩)
  · rename_i hlen
    intro c hc
    cases cs with
    | nil => cases hc
    | cons a t =>
      cases t with
      | nil => simp at h hc; subst h; subst hc; omega
      | cons b t' => simp at hlen

/-- `match_genomic_features` returns, position by position, the read feature itself or a known feature within
    `delta` of it (in particular it returns as many features as it is given: the `assert` of the code holds) -/
theorem match_genomic_features_sound (δ : Int) (known reads : List Iv) :
    Forall2 (Candidate known δ) reads (matchGenomicFeatures δ known reads) := by
  unfold matchGenomicFeatures
  apply pickAll_sound known δ reads _ _ reads 0 (by simp)
  intro q hq
  obtain ⟨a, _, r, c, d⟩ := match_sweep_sound δ known reads 0 q hq
  exact ⟨a, r, by simpa using c, d⟩

/-- every corrected read intron has, site by site, the read's own site or the site of an annotated intron within
    `delta` of that read intron — and without the `fuzzy_junctions` flag it *is* the read intron -/
theorem corrected_introns_sound (p : CParams) (err : Nat → Bool → Int × Int) (known readIntrons : List Iv) :
    ∀ n ∈ correctedIntrons p err known readIntrons,
      FuzzyOf known p.delta readIntrons n ∧ (p.fl.fuzzy_junctions = false → n ∈ readIntrons) := by
  intro n hn
  unfold correctedIntrons at hn
  split at hn
  · rename_i hf
    exact ⟨fuzzyLoop_sound known p.delta err _ _ (match_genomic_features_sound p.delta known readIntrons) 0 n hn,
           by intro hc; rw [hf] at hc; cases hc⟩
  · exact ⟨⟨n, hn, n, Or.inl rfl, Or.inl rfl, Or.inl rfl⟩, fun _ => hn⟩

/-- **site_provenance** (`process_events`, for every event map, annotation and error function): every intron of the
    result is (a) a read intron each of whose sites is the read's own or the corresponding site of an annotated
    intron within `delta` (only the read's own when `fuzzy_junctions` is off), or (b) an intron of the assigned
    isoform whose index is named by an event of the map -/
theorem site_provenance (p : CParams) (err : Nat → Bool → Int × Int) (known : List Iv)
    (emap : List (Int × MEvent)) (mm : List (Int × Int)) (readRegion : Iv) (readIntrons : List Iv) (isoRegion : Iv)
    (isoIntrons : List Iv)
    (reg : Iv) (ni : List Iv)
    (h : processEvents p err known emap mm readRegion readIntrons isoRegion isoIntrons = .ok (reg, ni)) :
    ∀ n ∈ ni, (FuzzyOf known p.delta readIntrons n ∧ (p.fl.fuzzy_junctions = false → n ∈ readIntrons)) ∨
              NamedIsoformIntron emap mm isoIntrons n := by
  unfold processEvents at h
  have hcorr := corrected_introns_sound p err known readIntrons
  have hown : ∀ n ∈ readIntrons, FuzzyOf known p.delta readIntrons n ∧ (p.fl.fuzzy_junctions = false → n ∈ readIntrons) :=
    fun n hn => ⟨⟨n, hn, n, Or.inl rfl, Or.inl rfl, Or.inl rfl⟩, fun _ => hn⟩
  refine eventLoop_invariant p emap mm readRegion readIntrons _ isoRegion isoIntrons
    (fun _ acc => ∀ n ∈ acc, (FuzzyOf known p.delta readIntrons n ∧ (p.fl.fuzzy_junctions = false → n ∈ readIntrons)) ∨
                             NamedIsoformIntron emap mm isoIntrons n)
    ?_ ?_ ?_ _ 0 readRegion [] reg ni (by intro n hn; cases hn) h
  · intro i r acc acc' hm hi
    obtain ⟨xs, hg, h3⟩ := microStep_ok hm
    rw [h3]
    intro n hn
    rcases List.mem_append.mp hn with hn | hn
    · exact hi n hn
    · obtain ⟨j, hj, h2⟩ := getAll_mem hg n hn
      simp only [microAt, List.mem_map, List.mem_filter] at hj
      obtain ⟨q, ⟨hq, _⟩, hqj⟩ := hj
      exact Or.inr ⟨pyGet_mem h2, Or.inr ⟨q, hq, by rw [hqj]; exact h2⟩⟩
  · intro i c r acc hg hi n hn
    rcases List.mem_append.mp hn with hn | hn
    · exact hi n hn
    · simp at hn; subst hn
      exact Or.inl (hcorr n (pyGet_mem hg))
  · intro i e r acc r' acc' hl hs hi
    obtain ⟨_, xs, hacc, hxs⟩ := eventStep_ok hs
    rw [hacc]
    intro n hn
    rcases List.mem_append.mp hn with hn | hn
    · exact hi n hn
    · rcases hxs n hn with ⟨j, _, _, hj⟩ | ⟨j, hj1, hj2⟩
      · rcases hj with hj | hj
        · exact Or.inl (hown n (pyGet_mem hj))
        · exact Or.inl (hcorr n (pyGet_mem hj))
      · exact Or.inr ⟨pyGet_mem hj2, Or.inl ⟨i, e, j, hl, hj1, hj2⟩⟩

/-- the block boundaries of the corrected alignment are the ends of the region and the sites of the new introns:
    every block starts at the region start or right after a new intron and ends at the region end or right
    before a new intron (so `site_provenance` speaks about every splice site that reaches the BED file) -/
theorem output_sites_from_introns (reg : Iv) (ni : List Iv) :
    ∀ e ∈ buildExons reg ni, (e.1 = reg.1 ∨ ∃ n ∈ ni, e.1 = n.2 + 1) ∧ (e.2 = reg.2 ∨ ∃ n ∈ ni, e.2 = n.1 - 1) := by
  intro e he
  cases ni with
  | nil => simp [buildExons] at he; subst he; exact ⟨Or.inl rfl, Or.inl rfl⟩
  | cons a rest =>
    obtain ⟨t, ht⟩ := getLast?_cons_some a rest
    rw [buildExons_cons reg a rest t ht] at he
    have htm : t ∈ a :: rest := List.mem_of_getLast? ht
    simp only [chain, List.mem_cons, List.mem_append, List.mem_nil_iff, or_false] at he
    rcases he with he | he | he
    · subst he; exact ⟨Or.inl rfl, Or.inr ⟨a, by simp, rfl⟩⟩
    · obtain ⟨u, hu, v, hv, hj⟩ := mem_junctions he
      subst hj
      exact ⟨Or.inr ⟨u, hu, rfl⟩, Or.inr ⟨v, hv, rfl⟩⟩
    · subst he; exact ⟨Or.inr ⟨t, htm, rfl⟩, Or.inl rfl⟩

/-- where an intron of the corrected alignment may come from (the two disjuncts of `site_provenance`) -/
def Provenance (p : CParams) (known : List Iv) (emap : List (Int × MEvent)) (mm : List (Int × Int))
    (readIntrons isoIntrons : List Iv) (n : Iv) : Prop :=
  (FuzzyOf known p.delta readIntrons n ∧ (p.fl.fuzzy_junctions = false → n ∈ readIntrons)) ∨
  NamedIsoformIntron emap mm isoIntrons n

/-- **site_provenance** for the alignment that reaches the BED file: the output of `correct_assigned_read` is the
    read's own exon list, or every block boundary other than the two outer ends is a splice site of an intron with
    the provenance above (for every event list, error function, annotation and strategy) -/
theorem corrected_read_site_provenance (p : CParams) (err : Nat → Bool → Int × Int) (known : List Iv)
    (noninformative : Bool) (evs : List MEvent) (isoRegion : Iv) (isoIntrons : List Iv) (exons out : List Iv)
    (h : correctAssignedRead p err known noninformative (some evs) isoRegion isoIntrons exons = .ok out) :
    out = exons ∨ ∃ reg : Iv, ∀ e ∈ out,
      (e.1 = reg.1 ∨ ∃ n, Provenance p known (buildEventMap evs) (buildMicroMap p.fl.microintron_retention evs)
          (junctionsFromBlocks exons) isoIntrons n ∧ e.1 = n.2 + 1) ∧
      (e.2 = reg.2 ∨ ∃ n, Provenance p known (buildEventMap evs) (buildMicroMap p.fl.microintron_retention evs)
          (junctionsFromBlocks exons) isoIntrons n ∧ e.2 = n.1 - 1) := by
  rcases correct_assigned_read_cases p err known noninformative (some evs) isoRegion isoIntrons exons out h with
    h1 | ⟨f, l, evs2, reg, ni, _, _, he, hp, ho, _⟩
  · exact Or.inl h1
  · cases he
    refine Or.inr ⟨reg, ?_⟩
    have hprov := site_provenance p err known _ _ _ _ isoRegion isoIntrons reg ni hp
    subst ho
    intro e he
    obtain ⟨h1, h2⟩ := output_sites_from_introns reg ni e he
    constructor
    · rcases h1 with h1 | ⟨n, hn, h1⟩
      · exact Or.inl h1
      · exact Or.inr ⟨n, hprov n hn, h1⟩
    · rcases h2 with h2 | ⟨n, hn, h2⟩
      · exact Or.inl h2
      · exact Or.inr ⟨n, hprov n hn, h2⟩

/-! ### validity of the exon chain in terms of the new introns -/

/-- the new introns fit the corrected region: well formed, each separated from the next by at least one base
    (strictly increasing), strictly inside the region; an empty intron list needs a non-empty region -/
def IntronsFit (reg : Iv) (ni : List Iv) : Prop :=
  Spaced ni ∧ (∀ f, ni.head? = some f → reg.1 < f.1) ∧ (∀ l, ni.getLast? = some l → l.2 < reg.2) ∧
    (ni = [] → reg.1 ≤ reg.2)

/-- **corrected_valid_iff** (constructor lemma of `correct_assigned_read`): the exon chain built from a region and
    new introns is a sorted, disjoint, well-formed block list *whose introns are exactly the new introns* iff the new
    introns fit the region.  `process_events` does not enforce the right-hand side (`gate_needed_witness`); it was the
    assumption interface on the unmodelled junction comparator until the `fix:` commit added the validity gate, which
    tests the left-hand side at run time (`corrected_always_valid`).  The theorem now says when a correction
    survives the gate with all its introns. -/
theorem corrected_valid_iff (reg : Iv) (ni : List Iv) :
    (SD (buildExons reg ni) ∧ WFl (buildExons reg ni) ∧ junctionsFromBlocks (buildExons reg ni) = ni) ↔
      IntronsFit reg ni := by
  cases ni with
  | nil =>
    simp only [buildExons_nil, IntronsFit, Spaced, List.head?_nil, List.getLast?_nil, reduceCtorEq, false_implies,
      implies_true, true_and, forall_const]
    constructor
    · rintro ⟨_, hw, _⟩; exact hw reg (by simp)
    · intro h; exact ⟨trivial, fun r hr => by simp at hr; subst hr; exact h, by simp [junctionsFromBlocks]⟩
  | cons a rest =>
    obtain ⟨t, ht⟩ := getLast?_cons_some a rest
    rw [buildExons_cons reg a rest t ht]
    constructor
    · rintro ⟨hsd, hw, hj⟩
      have hg := gapped_junctions hsd hw
      rw [hj] at hg
      refine ⟨hg, ?_, ?_, by intro h; cases h⟩
      · intro f hf; simp at hf; subst hf
        have := hw (reg.1, a.1 - 1) (by simp [chain]); simp at this; omega
      · intro l hl; rw [ht] at hl; cases hl
        have := hw (t.2 + 1, reg.2) (by simp [chain]); simp at this; omega
    · rintro ⟨hg, hf, hl, _⟩
      have h1 := hf a (by simp)
      have h2 := hl t ht
      obtain ⟨hsd, hw⟩ := chain_valid_of_monotone a rest reg.1 reg.2 t (Spaced_Monotone2 hg) ht h1 h2
      exact ⟨hsd, hw, junctions_chain a rest reg.1 reg.2 t hg ht⟩

/-- weaker sufficient condition that covers what fuzzy correction can produce: if the new introns are well formed,
    neither end ever moves backwards (overlapping / touching neighbours allowed: the code merges them) and they lie
    strictly inside the region, the corrected exon list is still a valid block list -/
theorem corrected_valid_of_monotone (reg : Iv) (ni : List Iv) (hm : Monotone2 ni)
    (hf : ∀ f, ni.head? = some f → reg.1 < f.1) (hl : ∀ l, ni.getLast? = some l → l.2 < reg.2)
    (he : ni = [] → reg.1 ≤ reg.2) :
    SD (buildExons reg ni) ∧ WFl (buildExons reg ni) := by
  cases ni with
  | nil =>
    rw [buildExons_nil]
    exact ⟨trivial, fun r hr => by simp at hr; subst hr; exact he rfl⟩
  | cons a rest =>
    obtain ⟨t, ht⟩ := getLast?_cons_some a rest
    rw [buildExons_cons reg a rest t ht]
    exact chain_valid_of_monotone a rest reg.1 reg.2 t hm ht (hf a (by simp)) (hl t ht)

/-- end to end: if `process_events` returns new introns that fit a region inside the chromosome, the record that
    `BEDPrinter` writes for the corrected alignment is valid BED12 -/
theorem corrected_record_valid (chrom name strand : String) (chromLen : Int) (reg : Iv) (ni : List Iv)
    (hfit : IntronsFit reg ni) (h1 : 1 ≤ reg.1) (h2 : reg.2 ≤ chromLen) :
    ∃ r, bedRecord chrom name strand (buildExons reg ni) = some r ∧ ValidBed r chromLen ∧ r.blocks = buildExons reg ni := by
  obtain ⟨hsd, hw, _⟩ := (corrected_valid_iff reg ni).mpr hfit
  obtain ⟨f, l, hf, hl, hf1, hl2⟩ := build_exons_ends reg ni
  have hne : buildExons reg ni ≠ [] := by intro h; rw [h] at hf; cases hf
  have hfit' : ExonsFit (buildExons reg ni) chromLen :=
    ⟨hsd, hw, fun f' hf' => by rw [hf] at hf'; cases hf'; omega, fun l' hl' => by rw [hl] at hl'; cases hl'; omega⟩
  obtain ⟨r, hr, hv⟩ := bed_valid chrom name strand (buildExons reg ni) chromLen hne hfit'
  exact ⟨r, hr, hv, bed_blocks_roundtrip chrom name strand _ r hr⟩

/-- **corrected_bed_valid** — the first clause of C14 for the genic path, with no assumption on the unmodelled parts:
    for every read whose exon blocks are a valid block list inside the chromosome, every event list, every error
    function, every annotation whose assigned isoform lies inside the chromosome and every strategy, the line that
    `BEDPrinter` writes for the output of `correct_assigned_read` is a valid BED12 record, and it decodes to exactly
    the corrected blocks -/
theorem corrected_bed_valid (chrom name strand : String) (chromLen : Int) (p : CParams)
    (err : Nat → Bool → Int × Int) (known : List Iv) (noninformative : Bool) (events : Option (List MEvent))
    (isoRegion : Iv) (isoIntrons : List Iv) (exons out : List Iv) (hne : exons ≠ [])
    (hfit : ExonsFit exons chromLen) (hiso : 1 ≤ isoRegion.1 ∧ isoRegion.2 ≤ chromLen)
    (h : correctAssignedRead p err known noninformative events isoRegion isoIntrons exons = .ok out) :
    ∃ r, bedRecord chrom name strand out = some r ∧ ValidBed r chromLen ∧ r.blocks = out := by
  obtain ⟨hsd, hw, hfirst, hlast⟩ := hfit
  obtain ⟨hsd', hw'⟩ := corrected_always_valid p err known noninformative events isoRegion isoIntrons exons out hsd hw h
  have hfit' : out ≠ [] ∧ ExonsFit out chromLen := by
    rcases correct_assigned_read_cases p err known noninformative events isoRegion isoIntrons exons out h with
      h1 | ⟨f, l, evs, reg, ni, hf, hl, _, hp, ho, _⟩
    · subst h1; exact ⟨hne, hsd, hw, hfirst, hlast⟩
    · obtain ⟨hs, he⟩ := ends_preserved_unless_terminal p err known _ _ _ _ isoRegion isoIntrons reg ni hp
      obtain ⟨f', l', h1, h2, h3, h4⟩ := build_exons_ends reg ni
      have hb := SD_bounds hsd hw hf hl
      have hf1 := hfirst f hf
      have hl1 := hlast l hl
      have hstart : 1 ≤ reg.1 := by
        rcases hs with hs | ⟨_, _, _, x, _, _, hx, hv⟩ | ⟨_, _, _, _, _, hv⟩
        · rw [hs]; exact hf1
        · obtain ⟨a, _, b, hbm, hj⟩ := mem_junctions (pyGet_mem hx)
          have := (hb b hbm).1
          rw [hv, hj]; simp; omega
        · rw [hv]; exact hiso.1
      have hend : reg.2 ≤ chromLen := by
        rcases he with he | ⟨_, _, _, x, _, _, hx, hv⟩ | ⟨_, _, _, _, _, hv⟩
        · rw [he]; exact hl1
        · obtain ⟨a, ham, b, _, hj⟩ := mem_junctions (pyGet_mem hx)
          have := (hb a ham).2
          rw [hv, hj]; simp; omega
        · rw [hv]; exact hiso.2
      subst ho
      refine ⟨(by intro hc; rw [hc] at h1; cases h1), hsd', hw', ?_, ?_⟩
      · intro f'' hf''; rw [h1] at hf''; cases hf''; omega
      · intro l'' hl''; rw [h2] at hl''; cases hl''; omega
  obtain ⟨r, hr, hv⟩ := bed_valid chrom name strand out chromLen hfit'.1 hfit'.2
  exact ⟨r, hr, hv, bed_blocks_roundtrip chrom name strand _ r hr⟩

-- non-vacuity of the interface: introns that fit, and the chain the code builds from them
example : IntronsFit (10, 99) [(21, 30), (46, 59)] := by
  refine ⟨by decide, ?_, ?_, by intro h; cases h⟩ <;> intro x hx <;> simp at hx <;> subst hx <;> decide
example : buildExons (10, 99) [(21, 30), (46, 59)] = [(10, 20), (31, 45), (60, 99)] := by decide

/-! ### termination of the `while` loop -/

/-- **process_events_terminates**: if every event stored under a non-negative key ends at or after that key
    (`read_region[1] ≥ read_region[0]`, which is how `correct_misalignments` keys well-formed events), the loop
    index strictly increases and the run never exhausts the model's fuel, for every flag setting and input -/
theorem process_events_terminates (p : CParams) (err : Nat → Bool → Int × Int) (known : List Iv)
    (emap : List (Int × MEvent)) (mm : List (Int × Int)) (readRegion : Iv) (readIntrons : List Iv) (isoRegion : Iv)
    (isoIntrons : List Iv)
    (hprog : ∀ k e, 0 ≤ k → emap.lookup k = some e → k ≤ e.read.2) :
    processEvents p err known emap mm readRegion readIntrons isoRegion isoIntrons ≠ .error .fuel := by
  unfold processEvents
  exact eventLoop_no_fuel_error p emap mm readRegion readIntrons _ isoRegion isoIntrons hprog _ 0 readRegion []
    (by omega) (by simp [eventFuel]; omega)

/-- the hypothesis of `process_events_terminates` holds for the map built from events whose read regions are
    sentinels or non-empty index ranges -/
theorem built_map_progress (n : Nat) (evs : List MEvent) (hw : WellFormedRegions n evs) :
    ∀ k e, 0 ≤ k → (buildEventMap evs).lookup k = some e → k ≤ e.read.2 := by
  intro k e hk hl
  obtain ⟨h1, h2, ha, hkey⟩ := buildEventMap_mem (lookup_mem hl)
  simp only at h1 h2 ha hkey
  rcases hw e h1 with h | h | h
  · exact absurd h h2
  · exact absurd h.1 ha
  · omega

/-- a malformed event (region ending before its key) makes the loop spin forever: the real code does not terminate,
    the model reports `fuel` (replayed against the real code under a watchdog by the correspondence) -/
theorem nontermination_witness :
    processEvents ⟨allOff, 0⟩ (fun _ _ => (0, 0)) [] [(0, ⟨MatchEventSubtype.intron_retention, (0, 0), (0, -1)⟩)] []
      (1, 100) [(11, 20)] (1, 100) [(11, 20)] = .error .fuel := by decide


/-! ### concrete runs (non-vacuity of the theorems above; the same inputs are replayed on the real code by the
    correspondence) -/

/-- flags of `default_ont` as generated -/
theorem default_ont_flags : correction_presets.lookup "default_ont" = some ⟨true, false, true, false, true, true⟩ := by
  decide

-- fuzzy correction moves both sites of read intron (21,30) onto the annotated intron (20,31) (within delta = 2) when
-- the alignment shows an indel between the candidate sites, and keeps the read's sites when it does not
example : processEvents ⟨⟨true, false, true, false, true, true⟩, 2⟩ (fun _ _ => (1, 0)) [(20, 31)] [] [] (10, 99)
    [(21, 30)] (5, 120) [(20, 31)] = .ok ((10, 99), [(20, 31)]) := by decide +kernel
example : processEvents ⟨⟨true, false, true, false, true, true⟩, 2⟩ (fun _ _ => (0, 1)) [(20, 31)] [] [] (10, 99)
    [(21, 30)] (5, 120) [(20, 31)] = .ok ((10, 99), [(21, 30)]) := by decide +kernel

-- a fake terminal exon on the left (event on read intron 0, flag on): the region starts after that intron and the
-- intron is dropped; with the flag off (`conservative_ont`) the same event changes nothing
example : processEvents ⟨⟨true, false, true, false, true, true⟩, 6⟩ (fun _ _ => (0, 0)) []
    [(0, ⟨MatchEventSubtype.fake_terminal_exon_left, (1073741823, 1073741823), (0, 0)⟩)] [] (10, 99)
    [(13, 40), (61, 70)] (41, 120) [(61, 70)] = .ok ((41, 99), [(61, 70)]) := by decide +kernel
example : processEvents ⟨⟨true, false, true, false, false, false⟩, 6⟩ (fun _ _ => (0, 0)) []
    [(0, ⟨MatchEventSubtype.fake_terminal_exon_left, (1073741823, 1073741823), (0, 0)⟩)] [] (10, 99)
    [(13, 40), (61, 70)] (41, 120) [(61, 70)] = .ok ((10, 99), [(13, 40), (61, 70)]) := by decide +kernel

-- a skipped micro-exon (exon_misalignment, flag `skipped_exons`): read intron (21,80) is replaced by the two
-- isoform introns it spans
example : processEvents ⟨⟨false, false, true, false, false, false⟩, 6⟩ (fun _ _ => (0, 0)) []
    [(0, ⟨MatchEventSubtype.exon_misalignment, (0, 1), (0, 0)⟩)] [] (1, 200)
    [(21, 80)] (1, 200) [(21, 40), (51, 80)] = .ok ((1, 200), [(21, 40), (51, 80)]) := by decide +kernel

/-- `process_events` itself has no gate on where a terminal event points: a `fake_terminal_exon_left` event on read
    intron 1 (not the first intron) under `default_ont` makes it return a region and introns that do not fit
    (`IntronsFit` fails), from which the code before the fix built the block list `[(71, 12), (41, 99)]`; the
    validity gate of `correct_assigned_read` now discards such a correction -/
theorem gate_needed_witness :
    correctAssignedReadBuggy ⟨⟨true, false, true, false, true, true⟩, 6⟩ (fun _ _ => (0, 0)) [] false
      (some [⟨MatchEventSubtype.fake_terminal_exon_left, (1073741823, 1073741823), (1, 1)⟩]) (41, 120) [(61, 70)]
      [(10, 12), (41, 60), (71, 99)] = .ok [(71, 12), (41, 99)] ∧
    correctAssignedRead ⟨⟨true, false, true, false, true, true⟩, 6⟩ (fun _ _ => (0, 0)) [] false
      (some [⟨MatchEventSubtype.fake_terminal_exon_left, (1073741823, 1073741823), (1, 1)⟩]) (41, 120) [(61, 70)]
      [(10, 12), (41, 60), (71, 99)] = .ok [(10, 12), (41, 60), (71, 99)] := by
  decide +kernel

end IsoVerif.Props.C14Corrector
