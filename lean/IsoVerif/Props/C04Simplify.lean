/-
C04 (part 7) — `IntronGraph.simplify()` as the code COMPUTES it (Model/IntronSimplify.lean): which vertices are collapsed,
cut and discarded is derived from the collected intron counts and coordinates, not replayed from a trace.

* (1) every collapse the computed `simplify()` performs joins two DISTINCT vertices of one vertex set whose splice sites are
  both closer than `graph_clustering_distance`; the operations form a scoped history, so `edges_witnessed`,
  `thread_path_label_monotone`, `paths_monotone` hold for the computed constructor with no hypothesis about collapses;
* (2) `simplify()` is ONE pass (six phases), not a loop to a fixed point; its inner `while` loops — the dead-end walks —
  terminate: fuel `|edge pairs| + 1` never runs out (explicit measure), and on a locus whose splice windows are ordered no walk
  enters a cycle; the result is NOT a fixed point in general (`simplify_not_idempotent_witness`, replayed on the real code);
* (3) a key of `clustered_introns` disappears only through a justified `collapse_vertex` / `discard` (or, in
  `simplify_correction_map`, because it is also a key of the correction map); an intron that is annotated or has at least
  `min_novel_isolated_intron_abs` reads and no other collected intron within `graph_clustering_distance` survives with
  at least its count.
Property theorems only; helper lemmas: IsoVerif/Lemmas/IntronSimplify.lean.
-/
import IsoVerif.Model.IntronSimplify
import IsoVerif.Model.IntronTerminals
import IsoVerif.Lemmas.IntronSimplify
import IsoVerif.Lemmas.IntronTerminals
import IsoVerif.Props.C04Graph
import IsoVerif.Props.C04Paths
import IsoVerif.Props.C04Terminals

namespace IsoVerif.Props.C04Simplify
open IsoVerif.Gen IsoVerif.Model IsoVerif.Model.C04 IsoVerif.Lemmas.C04 IsoVerif.Props.C04Graph IsoVerif.Props.C04
  IsoVerif.Props.C04Paths IsoVerif.Props.C04Terminals

/-- both splice sites of `c` and `s` are closer than `d` (`start_dist < d and end_dist < d` of `collapse_vertex_set`) -/
def Within (d : Int) (c s : Iv) : Prop := iabs (s.1 - c.1) < d ∧ iabs (s.2 - c.2) < d

/-- the merge relation of the whole constructor: cluster substitution (within `delta`) or graph collapse (within
    `graph_clustering_distance`) -/
def MergeRel (δ d : Int) (c s : Iv) : Prop := Near δ c s ∨ Within d c s

theorem nearD_iff {d : Int} {c s : Iv} : nearD d s c = true ↔ Within d c s := by
  simp [nearD, Within]

/-- every edge endpoint is an intron the collector knows (a key of `clustered_introns` or of the correction map, or a
    discarded intron): holds after `construct()` (`constructed_endpoints_known`) -/
def EndpointsKnown (g : Graph) : Prop := EAll g.out (cdom g.col) ∧ EAll g.inc (cdom g.col)

theorem constructed_endpoints_known (known : List Iv) (δ minCount : Int) (reads : List Read) (g0 : Graph)
    (h0 : Graph.constructed known δ reads minCount = some g0) : EndpointsKnown g0 := constructed_eall h0

/-- the three views of one computed run -/
theorem simplify_views {P : SimpParams} {g g1 : Graph} {ops : List Op} {fr : Bool}
    (h1 : Graph.simplify P g = some g1) (h2 : simplifyOps P g = some (ops, fr)) :
    ∃ s, simplifySG P (SG.init g) = some s ∧ s.g = g1 ∧ s.log = ops ∧ s.fragile = fr := by
  unfold Graph.simplify at h1
  unfold simplifyOps at h2
  cases hs : simplifySG P (SG.init g) with
  | none => simp [hs] at h1
  | some s =>
    simp [hs] at h1 h2
    exact ⟨s, rfl, h1, h2.1, h2.2⟩

/-! ### (1) the computed simplify() stays inside the merge relation -/

/-- **simplify_respects_merge_relation.** For EVERY graph whose edge endpoints the collector knows (in particular the graph
    `construct()` builds from any reads), every `collapse_vertex(c, s)` the computed `simplify()` performs has `c ≠ s` and both
    splice sites of `c` and `s` closer than `graph_clustering_distance`; the computed operations form a scoped history
    (`runOps`) from the input graph to the result, contain no `add_edge` and no attachment, and satisfy the hypothesis `OpOk`
    of `edges_witnessed` for every merge relation that contains `Within graph_clustering_distance`. -/
theorem simplify_respects_merge_relation (P : SimpParams) (g g1 : Graph) (ops : List Op) (fr : Bool) (hg : EndpointsKnown g)
    (h1 : Graph.simplify P g = some g1) (h2 : simplifyOps P g = some (ops, fr)) :
    (∀ c s, Op.collapse c s ∈ ops → c ≠ s ∧ Within P.dist c s) ∧
    (∀ obs, runOps obs g ops = some g1) ∧
    (∀ op ∈ ops, notAttach op = true) ∧
    (∀ reads (M : Iv → Iv → Prop), (∀ c s, Within P.dist c s → M c s) → ∀ op ∈ ops, OpOk reads M op) := by
  obtain ⟨s, hs, rfl, rfl, _⟩ := simplify_views h1 h2
  have hh := simplifySG_hist hg.1 hg.2 hs
  have hsh := hist_shape hh
  refine ⟨?_, fun obs => hist_runOps hh, ?_, ?_⟩
  · intro c t hc
    have := hsh _ hc
    exact ⟨this.1, nearD_iff.1 this.2⟩
  · intro op hop
    have := hsh op hop
    cases op <;> simp_all [OpShape, notAttach]
  · intro reads M hM op hop
    have := hsh op hop
    cases op with
    | collapse c t => exact hM c t (nearD_iff.1 this.2)
    | addEdge a b => exact absurd this (by simp [OpShape])
    | _ => trivial

/-- the merge relation of the whole constructor, between introns of non-multimapper reads: cluster substitution (within
    `delta`) or graph collapse (within `graph_clustering_distance`) -/
def ObsMerge (reads : List Read) (δ d : Int) (c s : Iv) : Prop :=
  Observed reads c ∧ Observed reads s ∧ MergeRel δ d c s

/-- every collapse of the computed `simplify()` on a constructed graph joins two introns of non-multimapper reads -/
theorem computed_simplify_ops_ok (known : List Iv) (δ minCount : Int) (reads : List Read) (P : SimpParams)
    (g0 g1 : Graph) (sops : List Op) (fr : Bool)
    (h0 : Graph.constructed known δ reads minCount = some g0) (h1 : Graph.simplify P g0 = some g1)
    (hso : simplifyOps P g0 = some (sops, fr)) (M : Iv → Iv → Prop)
    (hM : ∀ c s, Observed reads c → Observed reads s → Within P.dist c s → M c s) : ∀ op ∈ sops, OpOk reads M op := by
  have hek := constructed_endpoints_known known δ minCount reads g0 h0
  obtain ⟨s, hs, _, hlog, _⟩ := simplify_views h1 hso
  have hh := simplifySG_hist hek.1 hek.2 hs
  rw [hlog] at hh
  intro op hop
  obtain ⟨pre, post, hsplit⟩ := List.append_of_mem hop
  obtain ⟨gp, _, hp, hj, _⟩ := hist_split hh pre op post hsplit
  have hvo := vertices_observed known δ minCount reads pre g0 gp h0 (hist_runOps hp)
  cases op with
  | collapse c t =>
    exact hM c t (hvo c (dom_verts hj.2.2.1)) (hvo t (dom_verts hj.2.2.2)) (nearD_iff.1 hj.2.1)
  | addEdge a b => exact absurd hj (by simp [OpJust])
  | _ => trivial

/-- the whole computed constructor — `process`, `construct()`, COMPUTED `simplify()`, modelled `attach_terminal_positions()` —
    is one scoped operation history; each of its collapses joins two introns of non-multimapper reads with both splice sites
    closer than `graph_clustering_distance`, so `OpOk` holds for every relation containing those pairs -/
theorem computed_constructor_is_history (known : List Iv) (δ minCount : Int) (reads : List Read) (P : SimpParams)
    (tp : TermParams) (g0 g1 g2 : Graph) (hpos : ∀ v, Observed reads v → 0 ≤ v.1)
    (h0 : Graph.constructed known δ reads minCount = some g0) (h1 : Graph.simplify P g0 = some g1)
    (h2 : g1.attachTerminals tp reads = some g2) :
    ∃ ops, runOps (obsIntrons reads) g0 ops = some g2 ∧
      (∀ M : Iv → Iv → Prop, (∀ c s, Observed reads c → Observed reads s → Within P.dist c s → M c s) →
        ∀ op ∈ ops, OpOk reads M op) := by
  cases hso : simplifyOps P g0 with
  | none =>
    unfold simplifyOps at hso; unfold Graph.simplify at h1
    cases hs : simplifySG P (SG.init g0) <;> simp [hs] at hso h1
  | some r =>
    obtain ⟨sops, fr⟩ := r
    have hek := constructed_endpoints_known known δ minCount reads g0 h0
    obtain ⟨hcol, hrun, hna, _⟩ := simplify_respects_merge_relation P g0 g1 sops fr hek h1 hso
    have hpos' : ∀ v ∈ obsIntrons reads, 0 ≤ v.1 := fun v hv => hpos v (mem_obsIntrons.1 hv)
    have hinit : GSub (Graph.init known δ reads minCount) (fun v => v ∈ obsIntrons reads) :=
      ⟨collectorProcess_csub known δ reads minCount, by simp [Graph.init, ESub], by simp [Graph.init, ESub]⟩
    have hn0 : NoTerm (Graph.init known δ reads minCount) := ⟨by simp [Graph.init], by simp [Graph.init]⟩
    have hcons : ∀ op ∈ constructOps (Graph.init known δ reads minCount).col reads, notAttach op = true := by
      intro op hop
      obtain ⟨v1, v2, rfl, _, _⟩ := constructOps_scoped _ reads op hop
      rfl
    obtain ⟨n0, s0⟩ := runOps_noTerm hpos' _ hinit hn0 hcons h0
    obtain ⟨n1, _⟩ := runOps_noTerm hpos' _ s0 n0 hna (hrun (obsIntrons reads))
    obtain ⟨aops, haops, hrun2⟩ := attach_is_history (obsIntrons reads) g1 g2 tp reads n1 h2
    refine ⟨sops ++ aops, by rw [runOps_append, hrun]; exact hrun2, ?_⟩
    intro M hM op hop
    rcases List.mem_append.1 hop with hop | hop
    · exact computed_simplify_ops_ok known δ minCount reads P g0 g1 sops fr h0 h1 hso M hM op hop
    · have hk := attached_terminals_spec g1 tp reads aops _ haops op hop
      cases op <;> simp_all [OpOk, AttachOpOK]

/-- **edges_witnessed_computed.** `edges_witnessed` for the COMPUTED constructor, no hypothesis about collapses left: every
    intron-to-intron edge of the final graph is the image of a read adjacency under chains of merges between introns of
    non-multimapper reads, each within `delta` (cluster substitution) or within `graph_clustering_distance` (graph collapse);
    every entry of the correction map is such a chain. -/
theorem edges_witnessed_computed (known : List Iv) (δ minCount : Int) (reads : List Read) (P : SimpParams)
    (tp : TermParams) (g0 g1 g2 : Graph) (hpos : ∀ v, Observed reads v → 0 ≤ v.1)
    (h0 : Graph.constructed known δ reads minCount = some g0) (h1 : Graph.simplify P g0 = some g1)
    (h2 : g1.attachTerminals tp reads = some g2) :
    (∀ u v, (u, v) ∈ g2.out → isIntronVertex v = true → Wit reads (ObsMerge reads δ P.dist) u v) ∧
    (∀ w v, (w, v) ∈ g2.inc → isIntronVertex v = true → Wit reads (ObsMerge reads δ P.dist) v w) ∧
    (∀ k s, amGet? g2.col.corr k = some s → Rep (ObsMerge reads δ P.dist) k s) := by
  obtain ⟨ops, hrun, hok⟩ := computed_constructor_is_history known δ minCount reads P tp g0 g1 g2 hpos h0 h1 h2
  have hpos' : ∀ v ∈ obsIntrons reads, 0 ≤ v.1 := fun v hv => hpos v (mem_obsIntrons.1 hv)
  have hinv := edgeInv_of_history_obs (M := ObsMerge reads δ P.dist) hpos'
    (fun k s hk hs hn => ⟨mem_obsIntrons.1 hk, mem_obsIntrons.1 hs, Or.inl hn⟩)
    (hok _ (fun c s hc hs hw => ⟨hc, hs, Or.inr hw⟩)) h0 hrun
  exact ⟨fun u v huv hv => hinv.out (u, v) huv hv, fun w v hwv hv => hinv.inc (w, v) hwv hv,
    fun k s hks => hinv.corr (k, s) (amGet?_mem hks)⟩

/-- **thread_path_label_monotone_computed.** For any labelling of introns (e.g. the index of the splice window) that is
    constant on read introns within `delta` and on read introns within `graph_clustering_distance` of each other and strictly
    increases along the reads, the label strictly increases along every intron-to-intron edge of the computed graph (so the
    graph is acyclic) and along every path `thread_introns` builds on it (so no vertex repeats).  No hypothesis about the
    history is left. -/
theorem thread_path_label_monotone_computed (known : List Iv) (δ minCount : Int) (reads : List Read) (P : SimpParams)
    (tp : TermParams) (g0 g1 g2 : Graph) (w : Iv → Int) (hpos : ∀ v, Observed reads v → 0 ≤ v.1)
    (hδ : ∀ k s, Observed reads k → Observed reads s → Near δ k s → w k = w s)
    (hD : ∀ c s, Observed reads c → Observed reads s → Within P.dist c s → w c = w s)
    (hadj : ∀ a b, Adj reads a b → w a < w b)
    (h0 : Graph.constructed known δ reads minCount = some g0) (h1 : Graph.simplify P g0 = some g1)
    (h2 : g1.attachTerminals tp reads = some g2) :
    (∀ u v, (u, v) ∈ g2.out → isIntronVertex v = true → w u < w v) ∧
    (∀ introns path, (∀ a b, AdjIn introns a b → w a < w b) → threadIntrons g2.col introns = some path →
      ∀ u v, AdjIn path u v → w u < w v) := by
  obtain ⟨ops, hrun, hok⟩ := computed_constructor_is_history known δ minCount reads P tp g0 g1 g2 hpos h0 h1 h2
  have hpos' : ∀ v ∈ obsIntrons reads, 0 ≤ v.1 := fun v hv => hpos v (mem_obsIntrons.1 hv)
  have hinv := edgeInv_of_history_obs (M := fun c s => w c = w s) hpos'
    (fun k s hk hs hn => hδ k s (mem_obsIntrons.1 hk) (mem_obsIntrons.1 hs) hn) (hok _ hD) h0 hrun
  constructor
  · intro u v huv hv
    obtain ⟨a, b, hab, ha, hb⟩ := hinv.out (u, v) huv hv
    rw [← Rep.label w (fun _ _ hm => hm) ha, ← Rep.label w (fun _ _ hm => hm) hb]
    exact hadj a b hab
  · intro introns path hl ht u v huv
    obtain ⟨a, b, hab, ha, hb⟩ := threadIntrons_adj hinv.corr introns ht huv
    rw [← Rep.label w (fun _ _ hm => hm) ha, ← Rep.label w (fun _ _ hm => hm) hb]
    exact hl a b hab

/-- **paths_monotone_computed.** `paths_monotone` with the graph computed end to end inside the model: reads → collector →
    `construct()` → computed `simplify()` → modelled terminal attachment → the code's path enumeration →
    `construct_fl_isoforms`: every novel model has a strictly increasing chain of observed introns between attached terminal
    positions. -/
theorem paths_monotone_computed (known : List Iv) (δ minCount : Int) (reads : List Read) (P : SimpParams)
    (tp : TermParams) (g0 g1 g2 : Graph) (hpos : ∀ v, Observed reads v → 0 ≤ v.1)
    (hwf : ∀ r ∈ reads, ∀ i ∈ r.introns, i.1 ≤ i.2)
    (h0 : Graph.constructed known δ reads minCount = some g0) (h1 : Graph.simplify P g0 = some g1)
    (h2 : g1.attachTerminals tp reads = some g2)
    (delta apa : Int) (req : Bool) (verdict : List Iv → Bool × String)
    (env : FLEnv) (sd : Iv → Strand) (next : Nat → Nat) (st st' : FLState) (ds : List Decision)
    (hrun : constructFL env sd next st (pathInsOf (fillGraphPaths g2 delta apa req reads) verdict) = some (st', ds)) :
    ∀ d ∈ ds, ∀ m, d = .novelAdded m →
      ∃ s e : Iv, s.1 ∈ starting_vertex_codes ∧ e.1 ∈ terminal_vertex_codes ∧
        (∃ first, m.intronPath.head? = some first ∧ (first, s) ∈ g2.inc) ∧
        (∃ last, m.intronPath.getLast? = some last ∧ (last, e) ∈ g2.out) ∧
        m.exons = getExons (s.2, e.2) m.intronPath ∧ m.exons.length = m.intronPath.length + 1 ∧
        ChainMonotone s.2 m.intronPath e.2 ∧ (∀ i ∈ m.intronPath, Observed reads i) := by
  obtain ⟨ops, hr, _⟩ := computed_constructor_is_history known δ minCount reads P tp g0 g1 g2 hpos h0 h1 h2
  exact paths_monotone known δ minCount reads ops g0 g2 hwf h0 hr delta apa req verdict env sd next st st' ds hrun

/-! ### (2) termination; the result is not a fixed point -/

/-- **dead_end_walk_fuel_suffices.** The walks of `signleton_dead_end` / `signleton_dead_start` never run out of the fuel
    `|edge pairs| + 1` the model gives them — for every graph and start vertex.  Explicit measure: the number of edge pairs
    whose key has not been walked yet (`unwalked`) strictly decreases with every step, because a step leaves a vertex of count 1
    with exactly one neighbour that was not on the path.  So the only non-terminating behaviour is the `cycle` answer: the
    walk returns to a vertex of the path, where the code's `while` (whose state is the current vertex alone) runs forever. -/
theorem dead_end_walk_fuel_suffices (g : Graph) (outgoing : Bool) (v : Iv) :
    deadWalk g outgoing (walkFuel g outgoing) [] v ≠ .fuel :=
  deadWalk_fuel g outgoing _ [] v (walkFuel_enough g outgoing)

/-- **dead_end_walks_terminate.** On a locus with ordered splice windows — a labelling that is constant on read introns
    within `delta`, that every collapse of the history respects and that strictly increases along the reads — every dead-end
    walk, in every graph state reachable before the terminal vertices are attached, ends:
    `[signleton_dead_end(i) for i in ...]` returns. -/
theorem dead_end_walks_terminate (known : List Iv) (δ minCount : Int) (reads : List Read) (ops : List Op) (g0 g : Graph)
    (w : Iv → Int) (hpos : ∀ v, Observed reads v → 0 ≤ v.1)
    (hδ : ∀ k s, Observed reads k → Observed reads s → Near δ k s → w k = w s)
    (hops : ∀ op ∈ ops, OpOk reads (fun c s => w c = w s) op)
    (hna : ∀ op ∈ ops, notAttach op = true) (hadj : ∀ a b, Adj reads a b → w a < w b)
    (h0 : Graph.constructed known δ reads minCount = some g0)
    (h : runOps (obsIntrons reads) g0 ops = some g) (outgoing : Bool) (starts : List Iv) :
    ∃ r, walkAll g outgoing starts = some r := by
  have hpos' : ∀ v ∈ obsIntrons reads, 0 ≤ v.1 := fun v hv => hpos v (mem_obsIntrons.1 hv)
  have hinv := edgeInv_of_history_obs (M := fun c s => w c = w s) hpos'
    (fun k s hk hs hn => hδ k s (mem_obsIntrons.1 hk) (mem_obsIntrons.1 hs) hn) hops h0 h
  have ho : ∀ u v, (u, v) ∈ g.out → isIntronVertex v = true → w u < w v := by
    intro u v huv hv
    obtain ⟨a, b, hab, ha, hb⟩ := hinv.out (u, v) huv hv
    rw [← Rep.label w (fun _ _ hm => hm) ha, ← Rep.label w (fun _ _ hm => hm) hb]
    exact hadj a b hab
  have hi : ∀ x v, (x, v) ∈ g.inc → isIntronVertex v = true → w v < w x := by
    intro x v hxv hv
    obtain ⟨a, b, hab, ha, hb⟩ := hinv.inc (x, v) hxv hv
    rw [← Rep.label w (fun _ _ hm => hm) ha, ← Rep.label w (fun _ _ hm => hm) hb]
    exact hadj a b hab
  have hinit : GSub (Graph.init known δ reads minCount) (fun v => v ∈ obsIntrons reads) :=
    ⟨collectorProcess_csub known δ reads minCount, by simp [Graph.init, ESub], by simp [Graph.init, ESub]⟩
  have hn0 : NoTerm (Graph.init known δ reads minCount) := ⟨by simp [Graph.init], by simp [Graph.init]⟩
  have hcons : ∀ op ∈ constructOps (Graph.init known δ reads minCount).col reads, notAttach op = true := by
    intro op hop
    obtain ⟨v1, v2, rfl, _, _⟩ := constructOps_scoped _ reads op hop
    rfl
  obtain ⟨n0, s0⟩ := runOps_noTerm hpos' _ hinit hn0 hcons h0
  obtain ⟨n1, _⟩ := runOps_noTerm hpos' _ s0 n0 hna h
  apply walkAll_isSome
  intro i _
  refine ⟨dead_end_walk_fuel_suffices g outgoing i, ?_⟩
  cases outgoing
  · refine deadWalk_no_cycle g false (fun v => - w v) ?_ _ [] i (by simp)
    intro v x hx
    simp only [Bool.false_eq_true, if_false] at hx
    have := hi v x (mem_incOf.1 hx) (n1.2 _ (mem_incOf.1 hx))
    omega
  · refine deadWalk_no_cycle g true w ?_ _ [] i (by simp)
    intro v x hx
    simp only [if_true] at hx
    exact ho v x (mem_outOf.1 hx) (n1.1 _ (mem_outOf.1 hx))

/-- **simplify_walks_terminate.** ... in particular in every state the COMPUTED `simplify()` passes through (after any prefix
    of its own operations): with ordered splice windows the computed `simplify()` never hangs in a dead-end walk. -/
theorem simplify_walks_terminate (known : List Iv) (δ minCount : Int) (reads : List Read) (P : SimpParams)
    (g0 g1 : Graph) (sops : List Op) (fr : Bool) (w : Iv → Int) (hpos : ∀ v, Observed reads v → 0 ≤ v.1)
    (hδ : ∀ k s, Observed reads k → Observed reads s → Near δ k s → w k = w s)
    (hD : ∀ c s, Observed reads c → Observed reads s → Within P.dist c s → w c = w s)
    (hadj : ∀ a b, Adj reads a b → w a < w b)
    (h0 : Graph.constructed known δ reads minCount = some g0) (h1 : Graph.simplify P g0 = some g1)
    (hso : simplifyOps P g0 = some (sops, fr)) (pre post : List Op) (hsplit : sops = pre ++ post) (gp : Graph)
    (hp : runOps (obsIntrons reads) g0 pre = some gp) (outgoing : Bool) (starts : List Iv) :
    ∃ r, walkAll gp outgoing starts = some r := by
  have hok := computed_simplify_ops_ok known δ minCount reads P g0 g1 sops fr h0 h1 hso (fun c s => w c = w s) hD
  have hna := (simplify_respects_merge_relation P g0 g1 sops fr
    (constructed_endpoints_known known δ minCount reads g0 h0) h1 hso).2.2.1
  exact dead_end_walks_terminate known δ minCount reads pre g0 gp w hpos hδ
    (fun op hop => hok op (by rw [hsplit]; exact List.mem_append.2 (Or.inl hop)))
    (fun op hop => hna op (by rw [hsplit]; exact List.mem_append.2 (Or.inl hop))) hadj h0 hp outgoing starts

/-- one read `(102,200)|(300,400)|(500,600)`, three reads `(100,200)|(301,400)|(500,600)` -/
def idemReads : List Read :=
  [⟨"u0", [(102, 200), (300, 400), (500, 600)], [(72, 101), (201, 299), (401, 499), (601, 630)], false, "+", true, false, "g"⟩,
   ⟨"u1", [(100, 200), (301, 400), (500, 600)], [(70, 99), (201, 300), (401, 499), (601, 630)], false, "+", true, false, "g"⟩,
   ⟨"u2", [(100, 200), (301, 400), (500, 600)], [(70, 99), (201, 300), (401, 499), (601, 630)], false, "+", true, false, "g"⟩,
   ⟨"u3", [(100, 200), (301, 400), (500, 600)], [(70, 99), (201, 300), (401, 499), (601, 630)], false, "+", true, false, "g"⟩]

/-- `graph_clustering_distance` 4, ratio 0.5, `singleton_adjacent_cov` 2, `min_novel_isolated_intron_abs` 2 -/
def idemParams : SimpParams := ⟨4, 500, 2, 2⟩

/-- **simplify_not_idempotent_witness.** "`simplify()` runs until nothing changes / its result is a fixed point" is FALSE of
    model and code: `simplify()` is a single pass.  In the incoming half of `clean_tips_and_bulges` the key (300,400) is visited
    before (500,600), whose predecessor set {(300,400), (301,400)} makes (300,400) collapse into (301,400); only then does
    `incoming_edges[(301,400)]` hold both (100,200) and (102,200), which a SECOND `simplify()` collapses.  Replayed on the real
    `IntronGraph` by the correspondence on every run. -/
theorem simplify_not_idempotent_witness :
    ((Graph.constructed [] 0 idemReads 1).bind (Graph.simplify idemParams)).bind (fun g1 =>
        (Graph.simplify idemParams g1).map (fun g2 => (sortIv (amKeys g1.col.clustered), sortIv (amKeys g2.col.clustered))))
      = some ([(100, 200), (102, 200), (301, 400), (500, 600)], [(100, 200), (301, 400), (500, 600)]) := by
  decide +kernel

/-! ### (3) which introns can be dropped; supported introns survive -/

/-- **simplify_drops_justified.** State exactly what the computed `simplify()` may drop.  For every graph whose edge endpoints
    the collector knows: (a) every operation of the computed history is justified in the state its predecessors lead to
    (`OpJust`): `collapse_vertex(c, s)` joins distinct known introns with both splice sites closer than
    `graph_clustering_distance`; `discard(v)` hits a key of `clustered_introns` that is not annotated, has fewer than
    `min_novel_isolated_intron_abs` reads and no edge at that moment; a defaultdict read hits a known intron; (b) a key of
    `clustered_introns` that is no key afterwards was the first argument of such a `collapse_vertex`, or of such a `discard`,
    or was also a key of the correction map (only `simplify_correction_map` removes those). -/
theorem simplify_drops_justified (P : SimpParams) (g g1 : Graph) (ops : List Op) (fr : Bool) (hg : EndpointsKnown g)
    (h1 : Graph.simplify P g = some g1) (h2 : simplifyOps P g = some (ops, fr)) :
    (∀ obs pre op post, ops = pre ++ op :: post → ∃ gp, runOps obs g pre = some gp ∧ OpJust P gp op) ∧
    (∀ v ∈ amKeys g.col.clustered, v ∉ amKeys g1.col.clustered →
      (∃ s, Op.collapse v s ∈ ops) ∨ Op.discard v ∈ ops ∨ v ∈ amKeys g.col.corr) := by
  obtain ⟨s, hs, rfl, rfl, _⟩ := simplify_views h1 h2
  have hh := simplifySG_hist hg.1 hg.2 hs
  constructor
  · intro obs pre op post heq
    obtain ⟨gp, _, hp, hj, _⟩ := hist_split hh pre op post heq
    exact ⟨gp, hist_runOps hp, hj⟩
  · intro v hv hnv
    rcases (hist_drop hh).2 v hv with h' | h'
    · exact absurd h' hnv
    · exact h'

/-- the exact local rule: `collapse_vertex_set` maps `v` to `s` only if both are members of the vertex set, `s ≠ v`, both
    splice sites are closer than `graph_clustering_distance` and `count(v) < count(s) * graph_clustering_ratio` -/
theorem collapse_vertex_set_spec (P : SimpParams) (cl : List (Iv × Int)) (vs : List Iv) (v s : Iv)
    (h : (v, s) ∈ sortSubst (collapseVertexSet P cl vs).1) :
    v ≠ s ∧ Within P.dist v s ∧ v ∈ vs ∧ s ∈ vs ∧ cnt cl v * 1000 < cnt cl s * P.ratioM := by
  obtain ⟨a, b, c, d, e⟩ := cvs_pairs_spec h
  exact ⟨a, nearD_iff.1 b, c, d, e⟩

/-- **simplify_keeps_supported.** The converse of "evidence-backed".  Let the counts be non-negative and the edge endpoints
    known (both hold after `construct()`).  A key `v` of `clustered_introns` that is neither substituted nor discarded, is
    annotated or has at least `min_novel_isolated_intron_abs` reads, and has no OTHER collected intron (clustered,
    substituted or discarded) with both splice sites closer than `graph_clustering_distance`, is after the computed
    `simplify()` still a key of `clustered_introns` with at least its count, not substituted, not discarded. -/
theorem simplify_keeps_supported (P : SimpParams) (g g1 : Graph) (hg : EndpointsKnown g)
    (hnn : ∀ p ∈ g.col.clustered, 0 ≤ p.2) (h1 : Graph.simplify P g = some g1) (v : Iv)
    (hv : v ∈ amKeys g.col.clustered) (hnc : v ∉ amKeys g.col.corr) (hnd : v ∉ g.col.discarded)
    (hsup : v ∈ g.col.known ∨ P.isoAbs ≤ cnt g.col.clustered v)
    (hsib : ∀ u, cdom g.col u → Within P.dist v u → u = v) :
    v ∈ amKeys g1.col.clustered ∧ cnt g.col.clustered v ≤ cnt g1.col.clustered v ∧ v ∉ amKeys g1.col.corr ∧
      v ∉ g1.col.discarded := by
  unfold Graph.simplify at h1
  cases hs : simplifySG P (SG.init g) with
  | none => simp [hs] at h1
  | some s =>
    simp [hs] at h1; subst h1
    have hh := simplifySG_hist hg.1 hg.2 hs
    have hk := hist_keeps hh v (cnt g.col.clustered v)
      ⟨hv, Int.le_refl _, hnc, hnd, hnn, fun _ h => h, rfl⟩ hsup (fun u hu hn => hsib u hu (nearD_iff.1 hn))
    exact ⟨hk.key, hk.cnt, hk.ncorr, hk.ndisc⟩

/-- ... in particular after `process` and `construct()` on any reads: the two structural hypotheses are theorems -/
theorem simplify_keeps_supported_constructed (known : List Iv) (δ minCount : Int) (reads : List Read) (P : SimpParams)
    (g0 g1 : Graph) (h0 : Graph.constructed known δ reads minCount = some g0) (h1 : Graph.simplify P g0 = some g1) (v : Iv)
    (hv : v ∈ amKeys g0.col.clustered) (hnc : v ∉ amKeys g0.col.corr) (hnd : v ∉ g0.col.discarded)
    (hsup : v ∈ g0.col.known ∨ P.isoAbs ≤ cnt g0.col.clustered v)
    (hsib : ∀ u, cdom g0.col u → Within P.dist v u → u = v) :
    v ∈ amKeys g1.col.clustered ∧ cnt g0.col.clustered v ≤ cnt g1.col.clustered v ∧ v ∉ amKeys g1.col.corr ∧
      v ∉ g1.col.discarded := by
  refine simplify_keeps_supported P g0 g1 (constructed_endpoints_known known δ minCount reads g0 h0) ?_ h1 v hv hnc hnd hsup hsib
  rw [constructed_col h0]
  exact collectorProcess_nonneg known δ reads minCount

/-! ### non-vacuity -/

/-- the witness reads: the first computed `simplify()` performs exactly one collapse — (300,400) into (301,400), 1 bp apart —
    and is a scoped history; the supported intron (500,600) (4 reads, no sibling) survives with its count -/
example : ((Graph.constructed [] 0 idemReads 1).bind (fun g0 => (simplifyOps idemParams g0).map (fun r =>
      r.1.filter (fun op => match op with | .collapse _ _ => true | _ => false))))
    = some [.collapse (300, 400) (301, 400)] := by decide +kernel

example : ((Graph.constructed [] 0 idemReads 1).bind (fun g0 => (Graph.simplify idemParams g0).map (fun g1 =>
      (cnt g0.col.clustered (500, 600), cnt g1.col.clustered (500, 600), amGet? g1.col.corr (300, 400)))))
    = some (4, 4, some (301, 400)) := by decide +kernel

/-- a singleton dead end next to a well covered intron is cut and, being isolated afterwards with 1 < 2 reads, discarded;
    the walk needs no more fuel than edge pairs + 1 -/
def deadEndReads : List Read :=
  [⟨"a", [(100, 200), (300, 400)], [(70, 99), (201, 299), (401, 430)], false, "+", true, false, "g"⟩,
   ⟨"b", [(100, 200), (300, 400)], [(70, 99), (201, 299), (401, 430)], false, "+", true, false, "g"⟩,
   ⟨"c", [(100, 200), (300, 400), (500, 600)], [(70, 99), (201, 299), (401, 499), (601, 630)], false, "+", true, false, "g"⟩]

example : ((Graph.constructed [] 0 deadEndReads 1).map (fun g0 =>
      (g0.out, deadWalk g0 true (walkFuel g0 true) [] (500, 600)))
      = some ([((100, 200), (300, 400)), ((300, 400), (500, 600))], .done [(500, 600)] [(500, 600)])) ∧
    ((Graph.constructed [] 0 deadEndReads 1).bind (fun g0 => (Graph.simplify idemParams g0).map (fun g1 =>
      (g1.out, g1.col.discarded)))
      = some ([((100, 200), (300, 400))], [(500, 600)])) := by decide +kernel

/-- a cycle of singletons: the model answers `cycle` (the real `while` never ends; the correspondence checks that the real
    `simplify()` does not return within the time limit on such states) -/
example : deadWalk ⟨⟨[], [((10, 20), 1), ((30, 40), 1)], [], []⟩, [((10, 20), (30, 40)), ((30, 40), (10, 20))],
      [((10, 20), (30, 40)), ((30, 40), (10, 20))]⟩ true 3 [] (10, 20) = .cycle := by decide

/-- the whole computed constructor runs on the witness reads (hypotheses `h0`, `h1`, `h2` of the `_computed` theorems) -/
example : (((Graph.constructed [] 0 idemReads 1).bind (Graph.simplify idemParams)).bind (fun g1 =>
      g1.attachTerminals exTermParams idemReads)).map (fun g2 => g2.out)
    = some [((100, 200), (301, 400)), ((301, 400), (500, 600)), ((102, 200), (301, 400)),
            ((500, 600), (VERTEX_polya, 630))] := by decide +kernel

instance (d : Int) (c s : Iv) : Decidable (Within d c s) := by unfold Within; infer_instance

/-- splice windows of width 50 -/
def idemLabel (i : Iv) : Int := i.1 / 50

/-- the labelling hypotheses of `thread_path_label_monotone_computed` / `simplify_walks_terminate` hold for the witness reads
    with `delta = 0`, `graph_clustering_distance = 4` -/
example : (∀ c s, Observed idemReads c → Observed idemReads s → Within 4 c s → idemLabel c = idemLabel s) ∧
    (∀ k s, Observed idemReads k → Observed idemReads s → Near 0 k s → idemLabel k = idemLabel s) ∧
    (∀ a b, Adj idemReads a b → idemLabel a < idemLabel b) := by
  refine ⟨?_, ?_, ?_⟩
  · intro c s hc hs
    have key : ∀ c ∈ obsIntrons idemReads, ∀ s ∈ obsIntrons idemReads, Within 4 c s → idemLabel c = idemLabel s := by decide
    exact key c (mem_obsIntrons.2 hc) s (mem_obsIntrons.2 hs)
  · intro k s _ _ hn; rw [Near.eq_of_zero hn]
  · rintro a b ⟨r, hr, _, hab⟩
    have key : ∀ r ∈ idemReads, ∀ p ∈ r.introns.zip r.introns.tail, idemLabel p.1 < idemLabel p.2 := by decide
    exact key r hr (a, b) (adjIn_zip hab)

end IsoVerif.Props.C04Simplify
