/-
C09 — the empty group universe (hypothesis audit G10).

`group_of_read`, `partition`, `no_abort`, `matrix_linear_agree`, `partition_dump` (Props/C09.lean) assume `π ≠ []`.
The universe is empty iff no grouper call happened on any chromosome (e.g. a BAM with unaligned reads only).  The code
then takes `not read_groups` as "ungrouped" (`AssignedFeatureCounter.__init__`); the audit's probe
(/tmp/audit-B/probes/c09_empty_universe.py) saw rc 0 and `*_grouped_*` files in the ungrouped layout with all zeros.
The model does the same: with an empty universe the counter IS the ungrouped counter, so everything proved about
`initCounter _ none …` (C02) is what holds for `π = []`, and the `π ≠ []` theorems lose nothing but this case.
-/
import IsoVerif.Model.C09

namespace IsoVerif.Props.C09Empty
open IsoVerif.Gen IsoVerif.Model.C09

/-- an empty group universe gives the ungrouped counter (both numberings) -/
theorem empty_universe_is_ungrouped (buggy : Bool) (s : CountingStrategy) (af : List String) (oz : Bool)
    (fmt : GroupedOutputFormat) :
    initCounter buggy (some []) s af oz fmt = initCounter buggy none s af oz fmt := rfl

/-- … it ignores groups, has the single column `NA`, and numbers it 0 -/
theorem empty_universe_counter (buggy : Bool) (s : CountingStrategy) (af : List String) (oz : Bool)
    (fmt : GroupedOutputFormat) :
    (initCounter buggy (some []) s af oz fmt).ignoreGroups = true ∧
    (initCounter buggy (some []) s af oz fmt).ordered = [NA] ∧
    (initCounter buggy (some []) s af oz fmt).ids = [(NA, 0)] := ⟨rfl, rfl, rfl⟩

/-- hence every call stream is processed exactly as by the ungrouped counter -/
theorem empty_universe_run (s : CountingStrategy) (af : List String) (oz : Bool) (fmt : GroupedOutputFormat)
    (calls : List Call) :
    run (initCounter false (some []) s af oz fmt) calls = run (initCounter false none s af oz fmt) calls := by
  rw [empty_universe_is_ungrouped]

/-- the boundary is sharp: one group is already a grouped counter -/
example (s : CountingStrategy) : (initCounter false (some ["g"]) s [] false .matrix).ignoreGroups = false := rfl

end IsoVerif.Props.C09Empty
