/-
C04 (part 2) — every novel transcript model emitted by `construct_fl_isoforms` is evidence-backed, correctly
labelled, stranded and different from the reference.
Property theorems only (helper lemmas: IsoVerif/Lemmas/ModelConstruction.lean, IsoVerif/Lemmas/IntronGraph.lean).
Model: IsoVerif/Model/ModelConstruction.lean.  Heuristic inputs of the decision block (the assigner's verdict for a
path, the per-intron canonical strand, ids) are universally quantified.
-/
import IsoVerif.Gen.Strategies
import IsoVerif.Model.ModelConstruction
import IsoVerif.Lemmas.ModelConstruction
import IsoVerif.Props.C04Graph

namespace IsoVerif.Props.C04
open IsoVerif.Gen IsoVerif.Model IsoVerif.Model.C04 IsoVerif.Lemmas.C04 IsoVerif.Props.C04Graph

/-! ### the intron chain of a novel model is what the reads support -/

/-- **novel_model_chain.** The introns of an emitted novel model, as they will appear in the GTF (junctions of its
    exon lines), are exactly the inner vertices of its graph path (well-formed introns; the loop skips a path when
    `get_exons` had to drop an empty exon, so `get_exons` is inverted by `junctions_from_blocks`). -/
theorem novel_model_chain (env : FLEnv) (sd : Iv → Strand) (next : Nat → Nat) (st st' : FLState) (pi : PathIn) (m : TModel)
    (hstep : flStep env sd next st pi = some (st', .novelAdded m))
    (hwf : ∀ i ∈ pi.path.tail.dropLast, i.1 ≤ i.2) :
    m.introns = pi.path.tail.dropLast ∧ m.intronPath = pi.path.tail.dropLast := by
  have hf := flStep_novel_inv hstep
  obtain ⟨first, last, h1, h2, hex, hlen, _, idv', hb⟩ := hf.ends
  refine ⟨?_, (buildNovel_inv hb).1⟩
  unfold TModel.introns
  rw [hex]
  exact junctions_getExons _ _ _ (pathGapped_of_getExons_length _ _ _ hwf (hlen rfl))

/-- **novel_model_printable.** An emitted novel model passes `validate_exons` (sorted exons with `0 < start ≤ end`), so
    `GFFPrinter.dump` writes it to transcript_models.gtf and the lines `transcript_model_reads` has for it refer to a
    printed transcript.  (`hpos`: the starting vertex of the path is a read start, a 1-based coordinate.) -/
theorem novel_model_printable (env : FLEnv) (sd : Iv → Strand) (next : Nat → Nat) (st st' : FLState) (pi : PathIn) (m : TModel)
    (hstep : flStep env sd next st pi = some (st', .novelAdded m))
    (hwf : ∀ i ∈ pi.path.tail.dropLast, i.1 ≤ i.2)
    (hpos : ∀ first, pi.path.head? = some first → 0 < first.2) :
    validateExons m.exons = true := by
  have hf := flStep_novel_inv hstep
  obtain ⟨first, last, h1, h2, hex, hlen, _, idv', hb⟩ := hf.ends
  rw [hex]
  exact validate_getExons _ _ _ (hpos first h1) (pathGapped_of_getExons_length _ _ _ hwf (hlen rfl))

/-- **ends_correction_keeps_introns.** `correct_novel_transcript_ends` only rewrites the start of the first exon and the end
    of the last one (`setStart`, `setEnd`, for any new coordinates): the intron chain printed in the GTF does not change. -/
theorem ends_correction_keeps_introns (ex : List Iv) (s e : Int) :
    junctionsFromBlocks (setEnd (setStart ex s) e) = junctionsFromBlocks ex := by
  have h1 : ∀ (l : List Iv) (x : Int), junctionsFromBlocks (setEnd l x) = junctionsFromBlocks l := by
    intro l x
    induction l with
    | nil => rfl
    | cons a t ih =>
      cases t with
      | nil => simp [setEnd, junctionsFromBlocks]
      | cons b u =>
        cases u with
        | nil => simp [setEnd, junctionsFromBlocks]
        | cons c v =>
          simp only [setEnd, junctionsFromBlocks] at ih ⊢
          rw [ih]
  rw [h1]
  cases ex with
  | nil => rfl
  | cons a t =>
    cases t with
    | nil => simp [setStart, junctionsFromBlocks]
    | cons b u => simp [setStart, junctionsFromBlocks]

/-- **novel_introns_observed.** Whatever history of graph operations led to the graph, if a full-length path was
    threaded from a non-multimapper read and `construct_fl_isoforms` emits a novel model for it, then every intron of
    that model (GTF introns) occurs in the corrected alignment of some non-multimapper read.
    (`hwf`: corrected introns are non-empty intervals — the domain of C14.) -/
theorem novel_introns_observed (known : List Iv) (δ minCount : Int) (reads : List Read) (ops : List Op) (g0 g : Graph)
    (hwf : ∀ r ∈ reads, ∀ i ∈ r.introns, i.1 ≤ i.2)
    (h0 : Graph.constructed known δ reads minCount = some g0)
    (h : runOps (obsIntrons reads) g0 ops = some g)
    (r : Read) (hr : r ∈ reads) (hm : r.multimapper = false) (ip : List Iv)
    (ht : threadIntrons g.col r.introns = some ip)
    (env : FLEnv) (sd : Iv → Strand) (next : Nat → Nat) (st st' : FLState) (pi : PathIn) (m : TModel)
    (hpath : pi.path.tail.dropLast = ip)
    (hstep : flStep env sd next st pi = some (st', .novelAdded m)) :
    ∀ i ∈ m.introns, Observed reads i := by
  have hobs := thread_path_observed known δ minCount reads ops g0 g h0 h r hr hm ip ht
  have hwf' : ∀ i ∈ pi.path.tail.dropLast, i.1 ≤ i.2 := by
    intro i hi
    rw [hpath] at hi
    obtain ⟨r', hr', _, hi'⟩ := hobs i hi
    exact hwf r' hr' i hi'
  intro i hi
  rw [(novel_model_chain env sd next st st' pi m hstep hwf').1, hpath] at hi
  exact hobs i hi

/-- the inputs of `construct_fl_isoforms` as `IntronPathStorage.fill` leaves them; `verdict` is the assigner's answer
    for a path (universally quantified) -/
def pathInsOf (ps : PathStore) (verdict : List Iv → Bool × String) : List PathIn :=
  ps.fl.map (fun p => { path := p, count := cnt ps.paths p,
                        reads := ((amGet? ps.toReads p).getD []).map (fun r => (r.id, r.group)),
                        matching := (verdict p).1, ref := (verdict p).2 })

/-- **fl_paths_from_reads.** Every full-length path `IntronPathStorage.fill` registers is
    `[starting vertex] + thread_introns(read) + [terminal vertex]` for some non-multimapper read, whatever
    `thread_ends` / `thread_starts` (parameters of `ThreadParams`) answer. -/
theorem fl_paths_from_reads (g : Graph) (tp : ThreadParams) (reads : List Read) :
    ∀ path ∈ (fillPaths g tp reads).fl, ∃ r ∈ reads, r.multimapper = false ∧
      ∃ ip, threadIntrons g.col r.introns = some ip ∧ ip ≠ [] ∧ path.tail.dropLast = ip := by
  intro path hp
  obtain ⟨a, ha, hrp⟩ := (fillPaths_spec g tp reads).1 path hp
  obtain ⟨hmm, ip, ht, hne, hfl⟩ := readPath_spec hrp
  obtain ⟨s, e, rfl⟩ := hfl rfl
  exact ⟨a, ha, hmm, ip, ht, hne, by simp⟩

/-- **novel_introns_observed_end_to_end.** From the reads to the GTF: build the graph (collector, `construct()`, any
    history of graph operations), fill the path storage, run `construct_fl_isoforms` with any assigner verdicts, any
    canonical-site table, any id source: every intron of every novel model emitted occurs in the corrected alignment of a
    non-multimapper read. -/
theorem novel_introns_observed_end_to_end (known : List Iv) (δ minCount : Int) (reads : List Read) (ops : List Op)
    (g0 g : Graph) (hwf : ∀ r ∈ reads, ∀ i ∈ r.introns, i.1 ≤ i.2)
    (h0 : Graph.constructed known δ reads minCount = some g0)
    (h : runOps (obsIntrons reads) g0 ops = some g)
    (tp : ThreadParams) (verdict : List Iv → Bool × String)
    (env : FLEnv) (sd : Iv → Strand) (next : Nat → Nat) (st st' : FLState) (ds : List Decision)
    (hrun : constructFL env sd next st (pathInsOf (fillPaths g tp reads) verdict) = some (st', ds)) :
    ∀ d ∈ ds, ∀ m, d = .novelAdded m → ∀ i ∈ m.introns, Observed reads i := by
  intro d hd m hm
  subst hm
  unfold constructFL at hrun
  rcases flLoop_origin env sd next _ st [] st' ds hrun _ hd with h' | ⟨pi, hpi, s1, s2, hstep⟩
  · simp at h'
  · rw [mem_insSort] at hpi
    simp only [pathInsOf, List.mem_map] at hpi
    obtain ⟨path, hpath, rfl⟩ := hpi
    obtain ⟨r, hr, hmm, ip, ht, _, hip⟩ := fl_paths_from_reads g tp reads path hpath
    exact novel_introns_observed known δ minCount reads ops g0 g hwf h0 h r hr hmm ip ht env sd next s1 s2 _ m hip hstep

/-- a permissive environment used by the concrete examples -/
def exEnv (level : StrandnessReportingLevel) : FLEnv :=
  { chr := "chr1", geneEmpty := true, knownIntrons := [], knownPaths := [], intronGenes := [], geneStrands := [],
    refModels := [], minKnownCount := 1, minNovelCount := 1, requireMonointronicPolya := false, level := level,
    useTechnicalReplicas := false }

def exSd : Iv → Strand := fun i => if i.1 < 1000 then .plus else .dot

def exPath : PathIn :=
  { path := [(VERTEX_read_start, 10), (50, 90), (100, 200), (VERTEX_polya, 400)], count := 3,
    reads := [("r1", "g"), ("r2", "g"), ("r3", "g")], matching := false, ref := "" }

/-- non-vacuity of the end-to-end theorem: three polyA reads with two introns; graph, attached terminal vertices, path
    storage and decision block run to a novel model whose GTF introns are the reads' introns -/
def e2eReads : List Read :=
  [⟨"a", [(50, 90), (100, 200)], [(10, 49), (91, 99), (201, 400)], false, "+", true, false, "g"⟩,
   ⟨"b", [(50, 90), (100, 200)], [(12, 49), (91, 99), (201, 400)], false, "+", true, false, "g"⟩,
   ⟨"c", [(50, 90), (100, 200)], [(10, 49), (91, 99), (201, 398)], false, "+", true, false, "g"⟩]

example : ((Graph.constructed [] 0 e2eReads 1).bind (fun g0 =>
      (runOps (obsIntrons e2eReads) g0 [.attachOut (100, 200) (VERTEX_polya, 400),
          .attachInc (50, 90) (VERTEX_read_start, 10)]).bind (fun g =>
        (constructFL (exEnv .only_stranded) exSd (· + 1) ⟨[], 0, Store.empty⟩
          (pathInsOf (fillPaths g ⟨fun _ _ _ => some (VERTEX_polya, 400), fun _ _ _ => some (VERTEX_read_start, 10), false⟩ e2eReads)
            (fun _ => (false, "")))).map (fun r =>
            r.2.map (fun d => match d with | .novelAdded m => (m.introns, m.tid) | _ => ([], ""))))))
    = some [([(50, 90), (100, 200)], "transcript1.chr1.nnic")] := by decide +kernel

/-- non-vacuity of the two theorems above: a concrete path yields a novel model with two introns -/
example : (flStep (exEnv .only_stranded) exSd (· + 1) ⟨[], 0, Store.empty⟩ exPath).map
    (fun r => match r.2 with | .novelAdded m => (m.introns, m.strand) | _ => ([], Strand.dot))
    = some ([(50, 90), (100, 200)], .plus) := by decide +kernel

def overlapPath : PathIn :=
  { exPath with path := [(VERTEX_read_start, 10), (50, 90), (100, 215), (210, 300), (VERTEX_polya, 400)] }

/-- **novel_intron_unobserved_witness.** The code before the fix (`flStepBuggy`, no length check): when a substitution
    makes two consecutive path introns overlap ((100,215) followed by (210,300)), `get_exons` silently drops the empty
    exon and the emitted model carries the intron (100,300), which is not a vertex of its path — reproduced end to end
    on the real pipeline (docs/C04.md) and fixed in /repo. -/
theorem novel_intron_unobserved_witness :
    (flStepBuggy (exEnv .only_stranded) exSd (· + 1) ⟨[], 0, Store.empty⟩ overlapPath).map
      (fun r => match r.2 with | .novelAdded m => (m.introns, m.intronPath) | _ => ([], []))
    = some ([(50, 90), (100, 300)], [(50, 90), (100, 215), (210, 300)]) := by decide +kernel

/-- the current code skips that path (and does not consume an id) -/
example : flStep (exEnv .only_stranded) exSd (· + 1) ⟨[], 0, Store.empty⟩ overlapPath
    = some (⟨[], 0, Store.empty⟩, .skipped) := by decide +kernel

/-! ### `.nic` / `.nnic` -/

theorem nic_nnic_disjoint : ¬ (tn_nic_transcript_suffix.toList <:+ tn_nnic_transcript_suffix.toList) ∧
    ¬ (tn_nnic_transcript_suffix.toList <:+ tn_nic_transcript_suffix.toList) := by decide

/-- **nic_iff_all_known.** For every emitted novel model: the id ends in `.nic` exactly when every intron of its path
    is an annotated intron (`known_introns`), it ends in `.nnic` exactly otherwise, and the transcript type agrees. -/
theorem nic_iff_all_known (env : FLEnv) (sd : Iv → Strand) (next : Nat → Nat) (st st' : FLState) (pi : PathIn) (m : TModel)
    (hstep : flStep env sd next st pi = some (st', .novelAdded m)) :
    (tn_nic_transcript_suffix.toList <:+ m.tid.toList ↔ ∀ i ∈ m.intronPath, i ∈ env.knownIntrons) ∧
    (tn_nnic_transcript_suffix.toList <:+ m.tid.toList ↔ ¬ ∀ i ∈ m.intronPath, i ∈ env.knownIntrons) ∧
    (m.ttype = .novel_in_catalog ↔ ∀ i ∈ m.intronPath, i ∈ env.knownIntrons) ∧
    (m.ttype = .novel_not_in_catalog ↔ ¬ ∀ i ∈ m.intronPath, i ∈ env.knownIntrons) := by
  have hf := flStep_novel_inv hstep
  obtain ⟨first, last, _, _, _, _, _, idv', hb⟩ := hf.ends
  obtain ⟨hip, _, _, _, hk, hnk, _⟩ := buildNovel_inv hb
  rw [hip]
  by_cases hall : ∀ i ∈ pi.path.tail.dropLast, i ∈ env.knownIntrons
  · obtain ⟨htid, hty⟩ := hk hall
    refine ⟨⟨fun _ => hall, fun _ => htid ▸ suffix_novelTid _ _ _⟩, ⟨fun h => ?_, fun h => absurd hall h⟩,
      ⟨fun _ => hall, fun _ => hty⟩, ⟨fun h => (by rw [hty] at h; cases h), fun h => absurd hall h⟩⟩
    rw [htid] at h
    unfold novelTid at h
    rw [String.toList_append] at h
    exact absurd h (not_suffix_other nic_nnic_disjoint.2 nic_nnic_disjoint.1)
  · obtain ⟨htid, hty⟩ := hnk hall
    refine ⟨⟨fun h => ?_, fun h => absurd h hall⟩, ⟨fun _ => hall, fun _ => htid ▸ suffix_novelTid _ _ _⟩,
      ⟨fun h => (by rw [hty] at h; cases h), fun h => absurd h hall⟩, ⟨fun _ => hall, fun _ => hty⟩⟩
    rw [htid] at h
    unfold novelTid at h
    rw [String.toList_append] at h
    exact absurd h (not_suffix_other nic_nnic_disjoint.1 nic_nnic_disjoint.2)

/-- a novel model is never typed `known` -/
theorem novel_not_known (env : FLEnv) (sd : Iv → Strand) (next : Nat → Nat) (st st' : FLState) (pi : PathIn) (m : TModel)
    (hstep : flStep env sd next st pi = some (st', .novelAdded m)) : m.ttype ≠ .known := by
  have h := nic_iff_all_known env sd next st st' pi m hstep
  by_cases hall : ∀ i ∈ m.intronPath, i ∈ env.knownIntrons
  · rw [h.2.2.1.2 hall]; decide
  · rw [h.2.2.2.2 hall]; decide

/-- non-vacuity: with both introns annotated the same path gives a `.nic` id, with none a `.nnic` id -/
example : (flStep { exEnv .only_stranded with knownIntrons := [(50, 90), (100, 200)] } exSd (· + 1) ⟨[], 0, Store.empty⟩ exPath).map
    (fun r => match r.2 with | .novelAdded m => m.tid | _ => "") = some "transcript1.chr1.nic" := by decide +kernel
example : (flStep (exEnv .only_stranded) exSd (· + 1) ⟨[], 0, Store.empty⟩ exPath).map
    (fun r => match r.2 with | .novelAdded m => m.tid | _ => "") = some "transcript1.chr1.nnic" := by decide +kernel

/-! ### strand -/

/-- **definite_strand.** Under the reporting levels `only_canonical` and `only_stranded` (the latter is the command-line
    default) every emitted novel model has strand `+` or `-`. -/
theorem definite_strand (env : FLEnv) (sd : Iv → Strand) (next : Nat → Nat) (st st' : FLState) (pi : PathIn) (m : TModel)
    (hlevel : env.level = .only_canonical ∨ env.level = .only_stranded)
    (hstep : flStep env sd next st pi = some (st', .novelAdded m)) : m.strand = .plus ∨ m.strand = .minus := by
  have hf := flStep_novel_inv hstep
  obtain ⟨first, last, _, _, _, _, hgate, idv', hb⟩ := hf.ends
  have hs : getStrand sd pi.path.tail.dropLast (decide (last.1 = VERTEX_polya)) (decide (first.1 = VERTEX_polyt)) ≠ .dot := by
    unfold novelGate at hgate
    simp only at hgate
    split at hgate
    · simp at hgate
    · split at hgate
      · simp at hgate
      · split at hgate
        · simp at hgate
        · rename_i hlv
          rcases hlevel with hl | hl
          · apply getStrand_ne_dot_of_clean
            intro hc
            exact hlv (Or.inl ⟨hl, hc⟩)
          · intro hc
            exact hlv (Or.inr ⟨hl, hc⟩)
  have := (buildNovel_inv hb).2.2.2.1 hs
  rw [this]
  cases hg : getStrand sd pi.path.tail.dropLast (decide (last.1 = VERTEX_polya)) (decide (first.1 = VERTEX_polyt)) with
  | plus => exact Or.inl rfl
  | minus => exact Or.inr rfl
  | dot => exact absurd hg hs

/-- the default level of the command line and the level implied by every preset except `all` are covered -/
theorem default_level_covered : report_canonical_cli_default = .only_canonical ∨ report_canonical_cli_default = .only_stranded := by
  decide

/-- over the configurations the statement quantifies (every construction strategy, `--report_canonical` left at its
    command-line default) the effective level is `only_stranded`: `definite_strand` applies to all of them -/
theorem quantified_configurations_level : ∀ p ∈ construction_report_level,
    effective_report_level report_canonical_cli_default p.2 = .only_stranded := by decide

theorem preset_levels : ∀ p ∈ construction_report_level,
    p.1 ≠ "all" → (p.2 = .only_canonical ∨ p.2 = .only_stranded) := by decide

/-- **definite_strand_level_all_witness.** Under the level `all` ("report all transcript models regardless of their
    splice sites") the model emits a `.` strand: two non-canonical introns, read ends without polyA, no annotation. -/
theorem definite_strand_level_all_witness :
    (flStep (exEnv .all) (fun _ => .dot) (· + 1) ⟨[], 0, Store.empty⟩
      { exPath with path := [(VERTEX_read_start, 10), (50, 90), (100, 200), (VERTEX_read_end, 400)] }).map
      (fun r => match r.2 with | .novelAdded m => some m.strand | _ => none) = some (some .dot) := by decide +kernel

/-- ... and the same input is dropped under the other two levels -/
example : (flStep (exEnv .only_stranded) (fun _ => .dot) (· + 1) ⟨[], 0, Store.empty⟩
      { exPath with path := [(VERTEX_read_start, 10), (50, 90), (100, 200), (VERTEX_read_end, 400)] }).map (·.2)
    = some .skipped := by decide +kernel

/-! ### distinct from the reference -/

/-- keys of `known_isoforms_in_graph` as `get_known_spliced_isoforms` computes them -/
def knownPathsOf (col : Collector) (isoforms : List (List Iv)) : List (List Iv) :=
  (isoforms.filterMap (threadIntrons col)).filter (fun p => !p.isEmpty)

/-- **chains_distinct_from_reference.** With a clean correction map (`correction_map_clean`: what
    `simplify_correction_map` leaves), a novel model emitted for a path threaded from a read has an intron chain different
    from the intron chain of every reference isoform of the gene — also of isoforms whose introns were substituted or
    never seen.  (`hassign`: an assignment that `is_matching_assignment` accepts names its isoform.) -/
theorem chains_distinct_from_reference (col : Collector) (hclean : MapClean col) (isoforms : List (List Iv))
    (env : FLEnv) (henv : env.knownPaths = knownPathsOf col isoforms)
    (sd : Iv → Strand) (next : Nat → Nat) (st st' : FLState) (pi : PathIn) (m : TModel)
    (readIntrons : List Iv) (ht : threadIntrons col readIntrons = some pi.path.tail.dropLast)
    (hassign : pi.matching = true → pi.ref ≠ "")
    (hstep : flStep env sd next st pi = some (st', .novelAdded m)) :
    ∀ iso ∈ isoforms, m.intronPath ≠ iso := by
  have hf := flStep_novel_inv hstep
  obtain ⟨first, last, _, _, _, _, _, idv', hb⟩ := hf.ends
  have hip := (buildNovel_inv hb).1
  have hmatch : pi.matching = false := by
    cases hm : pi.matching with
    | false => rfl
    | true => rcases hf.noRef with h | h
              · rw [hm] at h; cases h
              · exact absurd h (hassign hm)
  have hnk : pi.path.tail.dropLast ∉ env.knownPaths := by
    rcases hf.notKnownPath with h | h
    · rw [hmatch] at h; cases h
    · exact h
  intro iso hiso heq
  rw [hip] at heq
  -- every element of the threaded path is neither a key of the map nor discarded
  obtain ⟨hmap, hnd⟩ := threadIntrons_eq_map _ ht
  have hkeys : ∀ x ∈ pi.path.tail.dropLast, amGet? col.corr x = none ∧ x ∉ col.discarded := by
    intro x hx
    rw [hmap] at hx
    simp only [List.mem_map] at hx
    obtain ⟨i, hi, rfl⟩ := hx
    unfold Collector.substitute
    cases hg : amGet? col.corr i with
    | some s => exact hclean i s hg
    | none => exact ⟨hg, hnd i hi⟩
  have hthread : threadIntrons col iso = some iso := by
    rw [← heq]
    exact threadIntrons_of_clean _ (fun x hx => (hkeys x hx).2) (fun x hx => (hkeys x hx).1)
  apply hnk
  rw [henv]
  unfold knownPathsOf
  simp only [List.mem_filter, List.mem_filterMap]
  refine ⟨⟨iso, hiso, by rw [hthread, heq]⟩, ?_⟩
  have := hf.nonempty
  cases hp : pi.path.tail.dropLast with
  | nil => exact absurd hp this
  | cons a t => simp

/-- non-vacuity: a clean map with one substitution; the reference isoform uses the *substituted* intron (30,42);
    a read path through (30,40) is emitted as novel and differs from the reference chain -/
example : MapClean ⟨[], [((10, 20), 5), ((30, 40), 4)], [((30, 42), (30, 40))], []⟩ := by
  intro k v h
  simp only [amGet?] at h
  split at h
  · simp at h; subst h; simp [amGet?]
  · simp at h

/-! ### annotation-free runs -/

/-- **annotation_free_all_novel.** With an empty annotation (`gene_info.empty()`, the assigner has no isoform to match)
    `construct_fl_isoforms` adds no known model, and every model it adds is novel and belongs to a gene whose id starts
    with `novel_gene_`. -/
theorem annotation_free_all_novel (env : FLEnv) (hempty : env.geneEmpty = true)
    (sd : Iv → Strand) (next : Nat → Nat) (st st' : FLState) (pi : PathIn) (d : Decision)
    (hnoiso : pi.matching = false)
    (hstep : flStep env sd next st pi = some (st', d)) :
    d = .skipped ∨ ∃ m, d = .novelAdded m ∧ m.ttype ≠ .known ∧ tn_novel_gene_prefix.toList <+: m.gene.toList := by
  cases d with
  | skipped => exact Or.inl rfl
  | knownAdded m =>
    exfalso
    unfold flStep flStepG at hstep
    simp only [hnoiso] at hstep
    split at hstep
    · simp at hstep
    · split at hstep
      · split at hstep
        · simp at hstep
        · split at hstep
          · simp at hstep
          · simp only [Bool.false_and, Bool.false_eq_true, if_false] at hstep
            split at hstep
            · simp at hstep
            · split at hstep
              · simp at hstep
              · split at hstep <;> simp at hstep
      · simp at hstep
  | novelAdded m =>
    refine Or.inr ⟨m, rfl, novel_not_known env sd next st st' pi m hstep, ?_⟩
    have hf := flStep_novel_inv hstep
    obtain ⟨first, last, _, _, _, _, _, idv', hb⟩ := hf.ends
    have := (buildNovel_inv hb).2.2.2.2.2.2 (by simp [selectReferenceGene, hempty])
    rw [this]
    exact prefix_novelGeneId _ _

/-- non-vacuity: the annotation-free example environment emits a model in `novel_gene_chr1_2` -/
example : (flStep (exEnv .only_stranded) exSd (· + 1) ⟨[], 0, Store.empty⟩ exPath).map
    (fun r => match r.2 with | .novelAdded m => m.gene | _ => "") = some "novel_gene_chr1_2" := by decide +kernel

/-! ### novel mono-exonic models -/

/-- **monoexon_novel_model.** A model added by `generate_monoexon_from_clustered` (whatever `cluster_monoexons` grouped):
    strand `+` or `-`, a `novel_gene_…` gene, not typed `known`, one exon (no intron to support), and at least
    `min_novel_count` reads saved for it. -/
theorem monoexon_novel_model (chr : String) (minNovelCount : Int) (next : Nat → Nat) (forward : Bool)
    (st st' : MonoState) (c : MonoCluster) (m : TModel)
    (h : monoStep chr minNovelCount next forward st c = some (st', some m)) :
    (m.strand = .plus ∨ m.strand = .minus) ∧ tn_novel_gene_prefix.toList <+: m.gene.toList ∧ m.ttype ≠ .known ∧
    m.introns = [] ∧ minNovelCount ≤ (c.reads.length : Int) ∧ st'.store = st.store.addModel m (c.reads.map (·.1)) := by
  unfold monoStep at h
  split at h
  · simp at h
  · rename_i hcount
    split at h
    · simp at h
    · split at h
      · simp at h
      · simp only [Option.some.injEq, Prod.mk.injEq] at h
        obtain ⟨hst, hm⟩ := h
        subst hm
        refine ⟨?_, prefix_novelGeneId _ _, by simp, by simp [TModel.introns, junctionsFromBlocks], by omega, by rw [← hst]⟩
        unfold monoStrand
        cases forward <;> simp

/-- non-vacuity: a polyA cluster of three mono-exonic reads becomes a `+` model in a novel gene -/
example : (monoStep "chr1" 2 (· + 1) true ⟨0, Store.empty⟩ ⟨900, [("a", 100, 900), ("b", 120, 899), ("c", 90, 901)]⟩).map
    (fun r => r.2.map (fun m => (m.strand, m.gene, m.exons))) = some (some (.plus, "novel_gene_chr1_2", [(90, 900)])) := by
  decide +kernel

/-! ### distinct among the novel models -/

def apaPaths : List PathIn :=
  [{ exPath with path := [(VERTEX_read_start, 10), (50, 90), (VERTEX_polya, 400)] },
   { exPath with path := [(VERTEX_read_start, 10), (50, 90), (VERTEX_polya, 1100)],
                 reads := [("r4", "g"), ("r5", "g"), ("r6", "g")] }]

/-- **chains_distinct_among_novel_witness.** FALSE in the model (and in the code: known finding
    `monointron_apa_duplicates`, reproduced end to end on the real pipeline): two full-length paths with the one intron
    (50,90) and two polyA vertices 700 bp apart give two novel models with the same intron chain; both pass
    `filter_transcripts` (for storages of 2-exon models `detect_similar_isoforms` returns nothing: it skips them) and both
    are listed with their reads in `transcript_model_reads`. -/
theorem chains_distinct_among_novel_witness :
    ((constructFL (exEnv .only_stranded) exSd (· + 1) ⟨[], 0, Store.empty⟩ apaPaths).bind (fun r =>
        (r.1.store.filterTranscripts ⟨1, 30⟩ (fun _ => 60) (fun _ => []) (fun _ => 0)).map (fun s =>
          (novelChains r.2, s.models.map (·.tid), s.dumpR2T.length))))
      = some ([[(50, 90)], [(50, 90)]], ["transcript1.chr1.nnic", "transcript3.chr1.nnic"], 6) := by decide +kernel

/-- **chains_distinct_among_novel_partial.** Proved under the exact hypothesis that excludes the failing class: no two
    full-length paths share their inner intron chain (they differ only in terminal vertices).  Then the novel models
    emitted by one call of `construct_fl_isoforms` have pairwise distinct intron chains.
    Full-strength statement (false, see the witness): the same conclusion without `hchains`. -/
theorem chains_distinct_among_novel_partial (env : FLEnv) (sd : Iv → Strand) (next : Nat → Nat) (st st' : FLState)
    (paths : List PathIn) (ds : List Decision)
    (hchains : (paths.map (fun p => p.path.tail.dropLast)).Nodup)
    (h : constructFL env sd next st paths = some (st', ds)) : (novelChains ds).Nodup := by
  unfold constructFL at h
  obtain ⟨new, hnew, hsub⟩ := flLoop_chains env sd next _ st [] st' ds h
  simp only [novelChains, List.filterMap_nil, List.nil_append] at hnew
  unfold novelChains
  rw [hnew]
  apply hsub.nodup
  exact ((insSort_perm _ paths).map _).nodup_iff.2 hchains

/-- non-vacuity of the partial theorem: two paths with different chains, both emitted -/
example : (constructFL (exEnv .only_stranded) exSd (· + 1) ⟨[], 0, Store.empty⟩
      [exPath, { exPath with path := [(VERTEX_read_start, 10), (50, 90), (VERTEX_polya, 400)] }]).map
      (fun r => novelChains r.2) = some [[(50, 90), (100, 200)], [(50, 90)]] := by decide +kernel

end IsoVerif.Props.C04
