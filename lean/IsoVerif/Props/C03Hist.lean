/-
C03 — the printer as a state machine over `dump` calls (`GFFPrinter.printed_gene_ids`): gene records appear once
for every history, transcript records appear once, the gene record contains the transcripts of its own call;
containment over the whole history needs a hypothesis (`…_partial`, `…_witness`).
Property theorems only; helper lemmas live in IsoVerif/Lemmas/{Sort,Gtf,GtfDump}.lean.
-/
import IsoVerif.Model.Gtf
import IsoVerif.Lemmas.C03GtfDump

namespace IsoVerif.Props.C03Hist
open IsoVerif.Gen IsoVerif.Model IsoVerif.Lemmas IsoVerif.Model.C03 IsoVerif.Lemmas.C03

/-- `m` is handed to the printer in some call of the history and passes the gate -/
def InHistory (calls : List Call) (m : TModel) : Prop := ∃ cl ∈ calls, m ∈ cl.models ∧ validM m = true

/-- all valid models of a history, in the order they are handed over -/
def validModels (calls : List Call) : List TModel := calls.flatMap (fun cl => cl.models.filter validM)

/-- **transcript records = gated models** (every call history, any initial printer state): a transcript record is
    written exactly for the models that pass `validate_exons`, with the model's chromosome, strand, gene, id and
    `(exon_blocks[0][0], exon_blocks[-1][1])`. -/
theorem transcript_records_are_gated_models :
    ∀ (calls : List Call) (printed p' : List Id) (out : List Line),
    runCalls printed calls = some (p', out) →
    ∀ c s e st g t, Line.tx c s e st g t ∈ out ↔
      ∃ m, InHistory calls m ∧ regionOf? m = some (s, e) ∧ m.chr = c ∧ m.strand = st ∧ m.gid = g ∧ m.tid = t := by
  intro calls
  induction calls with
  | nil =>
    intro printed p' out h c s e st g t
    simp only [runCalls, Option.some.injEq, Prod.mk.injEq] at h
    simp [← h.2, InHistory]
  | cons cl cs ih =>
    intro printed p' out h c s e st g t
    simp only [runCalls] at h
    cases hd : dump printed cl.ctx cl.models with
    | none => simp [hd] at h
    | some r1 =>
      obtain ⟨p1, l1⟩ := r1
      simp only [hd] at h
      cases hr : runCalls p1 cs with
      | none => simp [hr] at h
      | some r2 =>
        obtain ⟨p2, l2⟩ := r2
        simp only [hr, Option.some.injEq, Prod.mk.injEq] at h
        rw [← h.2, List.mem_append, dump_tx_line hd, ih p1 p2 l2 hr]
        constructor
        · rintro (⟨m, hm, hv, hrest⟩ | ⟨m, ⟨cl', hcl', hm, hv⟩, hrest⟩)
          · exact ⟨m, ⟨cl, by simp, hm, hv⟩, hrest⟩
          · exact ⟨m, ⟨cl', by simp [hcl'], hm, hv⟩, hrest⟩
        · rintro ⟨m, ⟨cl', hcl', hm, hv⟩, hrest⟩
          simp only [List.mem_cons] at hcl'
          rcases hcl' with he | hcl'
          · subst he; exact Or.inl ⟨m, hm, hv, hrest⟩
          · exact Or.inr ⟨m, ⟨cl', hcl', hm, hv⟩, hrest⟩

/-- history invariant behind `gene_line_once` (any initial `printed_gene_ids`) -/
theorem gene_ids_invariant :
    ∀ (calls : List Call) (printed p' : List Id) (out : List Line),
    runCalls printed calls = some (p', out) →
    (geneIds out).Nodup ∧ (∀ g ∈ geneIds out, g ∉ printed) ∧
    (∀ g, g ∈ p' ↔ g ∈ printed ∨ ∃ m, InHistory calls m ∧ m.gid = g) ∧
    (∀ g, g ∈ geneIds out ↔ g ∉ printed ∧ ∃ m, InHistory calls m ∧ m.gid = g) := by
  intro calls
  induction calls with
  | nil =>
    intro printed p' out h
    simp only [runCalls, Option.some.injEq, Prod.mk.injEq] at h
    simp [← h.1, ← h.2, geneIds, InHistory]
  | cons cl cs ih =>
    intro printed p' out h
    simp only [runCalls] at h
    cases hd : dump printed cl.ctx cl.models with
    | none => simp [hd] at h
    | some r1 =>
      obtain ⟨p1, l1⟩ := r1
      simp only [hd] at h
      cases hr : runCalls p1 cs with
      | none => simp [hr] at h
      | some r2 =>
        obtain ⟨p2, l2⟩ := r2
        simp only [hr, Option.some.injEq, Prod.mk.injEq] at h
        obtain ⟨hp, hout⟩ := h
        subst hp; subst hout
        obtain ⟨n1, f1, _⟩ := dump_ids hd
        obtain ⟨n2, f2, pr2, m2⟩ := ih p1 p2 l2 hr
        have hp1 := dump_printed hd
        have hmem1 : ∀ g, g ∈ geneIds l1 ↔ g ∉ printed ∧ ∃ m ∈ cl.models, validM m = true ∧ m.gid = g := by
          intro g
          constructor
          · intro hg
            obtain ⟨c, s, e, st, n, hl⟩ := (mem_geneIds l1 g).mp hg
            have := dump_gene_line hd hl
            exact ⟨this.fresh, this.nonempty⟩
          · rintro ⟨hf, hm⟩
            exact (mem_geneIds l1 g).mpr (dump_gene_line_exists hd g hf hm)
        have happ : geneIds (l1 ++ l2) = geneIds l1 ++ geneIds l2 := by simp [geneIds, List.filterMap_append]
        have hhist : ∀ g, (∃ m, InHistory (cl :: cs) m ∧ m.gid = g) ↔
            ((∃ m ∈ cl.models, validM m = true ∧ m.gid = g) ∨ ∃ m, InHistory cs m ∧ m.gid = g) := by
          intro g
          constructor
          · rintro ⟨m, ⟨cl', hcl', hm, hv⟩, hg⟩
            simp only [List.mem_cons] at hcl'
            rcases hcl' with he | hcl'
            · subst he; exact Or.inl ⟨m, hm, hv, hg⟩
            · exact Or.inr ⟨m, ⟨cl', hcl', hm, hv⟩, hg⟩
          · rintro (⟨m, hm, hv, hg⟩ | ⟨m, ⟨cl', hcl', hm, hv⟩, hg⟩)
            · exact ⟨m, ⟨cl, by simp, hm, hv⟩, hg⟩
            · exact ⟨m, ⟨cl', by simp [hcl'], hm, hv⟩, hg⟩
        refine ⟨?_, ?_, ?_, ?_⟩
        · rw [happ, List.nodup_append]
          refine ⟨n1, n2, ?_⟩
          intro a ha b hb hab
          subst hab
          have : a ∈ p1 := (hp1 a).mpr (Or.inr ((hmem1 a).mp ha).2)
          exact f2 a hb this
        · intro g hg
          rw [happ, List.mem_append] at hg
          rcases hg with hg | hg
          · exact f1 g hg
          · intro hgp
            exact f2 g hg ((hp1 g).mpr (Or.inl hgp))
        · intro g
          rw [pr2 g, hp1 g, hhist g]
          constructor
          · rintro ((h1 | h1) | h1)
            · exact Or.inl h1
            · exact Or.inr (Or.inl h1)
            · exact Or.inr (Or.inr h1)
          · rintro (h1 | h1 | h1)
            · exact Or.inl (Or.inl h1)
            · exact Or.inl (Or.inr h1)
            · exact Or.inr h1
        · intro g
          rw [happ, List.mem_append, hmem1 g, m2 g, hp1 g, hhist g]
          constructor
          · rintro (⟨hf, hm⟩ | ⟨hf, hm⟩)
            · exact ⟨hf, Or.inl hm⟩
            · exact ⟨fun hg => hf (Or.inl hg), Or.inr hm⟩
          · rintro ⟨hf, hm | hm⟩
            · exact Or.inl ⟨hf, hm⟩
            · by_cases h1 : ∃ m ∈ cl.models, validM m = true ∧ m.gid = g
              · exact Or.inl ⟨hf, h1⟩
              · exact Or.inr ⟨fun hg => hg.elim hf h1, hm⟩

/-- **gene_line_once**: for every history of dump calls on a fresh printer that does not abort, the gene records
    carry pairwise different gene ids (each gene record appears exactly once), and a gene has a record iff some
    model attributed to it passes the gate somewhere in the history (so every transcript record has its gene record). -/
theorem gene_line_once (calls : List Call) (p' : List Id) (out : List Line)
    (h : runCalls [] calls = some (p', out)) :
    (geneIds out).Nodup ∧ ∀ g, g ∈ geneIds out ↔ ∃ m, InHistory calls m ∧ m.gid = g := by
  obtain ⟨h1, _, _, h4⟩ := gene_ids_invariant calls [] p' out h
  exact ⟨h1, fun g => by simpa using h4 g⟩

/-- **transcript_once**: the transcript ids of the transcript records are, up to order, the ids of the models that
    pass the gate — each gated model gets exactly one transcript record (so if the ids handed to the printer are
    pairwise distinct, every transcript id appears once). -/
theorem transcript_once :
    ∀ (calls : List Call) (printed p' : List Id) (out : List Line),
    runCalls printed calls = some (p', out) →
    (txIds out).Perm ((validModels calls).map (·.tid)) := by
  intro calls
  induction calls with
  | nil =>
    intro printed p' out h
    simp only [runCalls, Option.some.injEq, Prod.mk.injEq] at h
    simp [← h.2, txIds, validModels]
  | cons cl cs ih =>
    intro printed p' out h
    simp only [runCalls] at h
    cases hd : dump printed cl.ctx cl.models with
    | none => simp [hd] at h
    | some r1 =>
      obtain ⟨p1, l1⟩ := r1
      simp only [hd] at h
      cases hr : runCalls p1 cs with
      | none => simp [hr] at h
      | some r2 =>
        obtain ⟨p2, l2⟩ := r2
        simp only [hr, Option.some.injEq, Prod.mk.injEq] at h
        rw [← h.2]
        have happ : txIds (l1 ++ l2) = txIds l1 ++ txIds l2 := by simp [txIds, List.filterMap_append]
        rw [happ]
        simp only [validModels, List.flatMap_cons, List.map_append]
        exact (dump_ids hd).2.2.append (ih p1 p2 l2 hr)

theorem transcript_ids_distinct (calls : List Call) (printed p' : List Id) (out : List Line)
    (h : runCalls printed calls = some (p', out)) (hd : ((validModels calls).map (·.tid)).Nodup) :
    (txIds out).Nodup :=
  (transcript_once calls printed p' out h).nodup_iff.mpr hd

/-- **gene_contains_transcripts_same_call**: in the call that writes the gene record, the record lies on the call's
    chromosome, contains the annotated gene region (if any) and every transcript of the gene written by that call,
    and is tight (both ends are attained by the annotated region or by one of those transcripts). -/
theorem gene_contains_transcripts_same_call {printed p' : List Id} {ctx : GeneCtx} {models : List TModel}
    {lines : List Line} (h : dump printed ctx models = some (p', lines))
    {c : Id} {s e : Int} {st : Strand} {g : Id} {n : Nat} (hg : Line.gene c s e st g n ∈ lines) :
    (∀ c' s' e' st' t, Line.tx c' s' e' st' g t ∈ lines → c' = c ∧ s ≤ s' ∧ e' ≤ e) ∧
    (∀ rr, ctx.regions.lookup g = some rr → s ≤ rr.1 ∧ rr.2 ≤ e) ∧
    ((∃ rr, ctx.regions.lookup g = some rr ∧ rr.1 = s) ∨ ∃ c' e' st' t, Line.tx c' s e' st' g t ∈ lines) ∧
    ((∃ rr, ctx.regions.lookup g = some rr ∧ rr.2 = e) ∨ ∃ c' s' st' t, Line.tx c' s' e st' g t ∈ lines) ∧
    n = ((models.filter validM).filter (fun m => decide (m.gid = g))).length := by
  have f := dump_gene_line h hg
  refine ⟨?_, f.contains_ref, ?_, ?_, f.count⟩
  · intro c' s' e' st' t ht
    obtain ⟨m, hm, hv, hr, hc, _, hgm, _⟩ := (dump_tx_line h c' s' e' st' g t).mp ht
    have := f.contains m hm hv hgm (s', e') hr
    exact ⟨by rw [← hc, f.models_chr m hm hv hgm, f.chr], this⟩
  · rcases f.tight_start with h1 | ⟨m, hm, hv, hgm, tr, hr, hs⟩
    · exact Or.inl h1
    · right
      refine ⟨m.chr, tr.2, m.strand, m.tid, (dump_tx_line h _ _ _ _ _ _).mpr ⟨m, hm, hv, ?_, rfl, rfl, hgm, rfl⟩⟩
      rw [hr, ← hs]
  · rcases f.tight_end with h1 | ⟨m, hm, hv, hgm, tr, hr, hs⟩
    · exact Or.inl h1
    · right
      refine ⟨m.chr, tr.1, m.strand, m.tid, (dump_tx_line h _ _ _ _ _ _).mpr ⟨m, hm, hv, ?_, rfl, rfl, hgm, rfl⟩⟩
      rw [hr, ← hs]

/-- a gene is dumped in one call: no gene id has gated models in two different calls of the history -/
def OneCallPerGene (calls : List Call) : Prop :=
  calls.Pairwise (fun c1 c2 => ∀ m1 ∈ c1.models, ∀ m2 ∈ c2.models, validM m1 = true → validM m2 = true → m1.gid ≠ m2.gid)

/-- full-strength statement (FALSE for the code, see `gene_contains_all_transcripts_witness`):
    for every history, every gene record contains every transcript record attributed to the gene. -/
def GeneContainsAllTranscripts (calls : List Call) : Prop :=
  ∀ p' out, runCalls [] calls = some (p', out) →
    ∀ c s e st g n c' s' e' st' t, Line.gene c s e st g n ∈ out → Line.tx c' s' e' st' g t ∈ out → s ≤ s' ∧ e' ≤ e

/-- where a gene record of a history comes from -/
theorem gene_line_origin :
    ∀ (calls : List Call) (printed p' : List Id) (out : List Line),
    runCalls printed calls = some (p', out) →
    ∀ c s e st g n, Line.gene c s e st g n ∈ out → g ∉ printed ∧ ∃ m, InHistory calls m ∧ m.gid = g := by
  intro calls printed p' out h c s e st g n hl
  have := (gene_ids_invariant calls printed p' out h).2.2.2 g
  exact this.mp ((mem_geneIds out g).mpr ⟨c, s, e, st, n, hl⟩)

/-- **gene_contains_all_transcripts_partial** (hypothesis: a gene is dumped in one call).  What is missing for the
    full statement: a gene whose models are spread over several calls gets its record in the first of them, with
    the range known then. -/
theorem gene_contains_all_transcripts_partial :
    ∀ (calls : List Call), OneCallPerGene calls → ∀ (printed p' : List Id) (out : List Line),
    runCalls printed calls = some (p', out) →
    ∀ c s e st g n c' s' e' st' t, Line.gene c s e st g n ∈ out → Line.tx c' s' e' st' g t ∈ out →
      c' = c ∧ s ≤ s' ∧ e' ≤ e := by
  intro calls
  induction calls with
  | nil =>
    intro _ printed p' out h c s e st g n c' s' e' st' t hg _
    simp only [runCalls, Option.some.injEq, Prod.mk.injEq] at h
    rw [← h.2] at hg; cases hg
  | cons cl cs ih =>
    intro hone printed p' out h c s e st g n c' s' e' st' t hg ht
    have hone' := List.pairwise_cons.mp hone
    simp only [runCalls] at h
    cases hd : dump printed cl.ctx cl.models with
    | none => simp [hd] at h
    | some r1 =>
      obtain ⟨p1, l1⟩ := r1
      simp only [hd] at h
      cases hr : runCalls p1 cs with
      | none => simp [hr] at h
      | some r2 =>
        obtain ⟨p2, l2⟩ := r2
        simp only [hr, Option.some.injEq, Prod.mk.injEq] at h
        rw [← h.2, List.mem_append] at hg ht
        rcases hg with hg | hg <;> rcases ht with ht | ht
        · exact (gene_contains_transcripts_same_call hd hg).1 c' s' e' st' t ht
        · exfalso
          obtain ⟨m1, hm1, hv1, hg1⟩ := (dump_gene_line hd hg).nonempty
          obtain ⟨m2, ⟨cl2, hcl2, hm2, hv2⟩, _, _, _, hg2, _⟩ :=
            (transcript_records_are_gated_models cs p1 p2 l2 hr c' s' e' st' g t).mp ht
          exact hone'.1 cl2 hcl2 m1 hm1 m2 hm2 hv1 hv2 (hg1.trans hg2.symm)
        · exfalso
          obtain ⟨_, m2, ⟨cl2, hcl2, hm2, hv2⟩, hg2⟩ := gene_line_origin cs p1 p2 l2 hr c s e st g n hg
          obtain ⟨m1, hm1, hv1, _, _, _, hg1, _⟩ := (dump_tx_line hd c' s' e' st' g t).mp ht
          exact hone'.1 cl2 hcl2 m1 hm1 m2 hm2 hv1 hv2 (hg1.trans hg2.symm)
        · exact ih hone'.2 p1 p2 l2 hr c s e st g n c' s' e' st' t hg ht

/-- **gene_contains_transcripts_inside_reference** (every history, no one-call hypothesis): if every call that
    hands over a model of gene `g` knows the same annotated region `rr` of `g`, then the gene record contains every
    transcript record of `g` that lies inside `rr` — in particular every reference transcript of a well-formed
    annotation.  Only transcripts reaching beyond the annotated gene can fall outside the record. -/
theorem gene_contains_transcripts_inside_reference :
    ∀ (calls : List Call) (g : Id) (rr : Iv),
    (∀ cl ∈ calls, (∃ m ∈ cl.models, validM m = true ∧ m.gid = g) → cl.ctx.regions.lookup g = some rr) →
    ∀ (printed p' : List Id) (out : List Line), runCalls printed calls = some (p', out) →
    ∀ c s e st n c' s' e' st' t, Line.gene c s e st g n ∈ out → Line.tx c' s' e' st' g t ∈ out →
      rr.1 ≤ s' → e' ≤ rr.2 → s ≤ s' ∧ e' ≤ e := by
  intro calls g rr
  induction calls with
  | nil =>
    intro _ printed p' out h c s e st n c' s' e' st' t hg
    simp only [runCalls, Option.some.injEq, Prod.mk.injEq] at h
    rw [← h.2] at hg; cases hg
  | cons cl cs ih =>
    intro href printed p' out h c s e st n c' s' e' st' t hg ht h1 h2
    simp only [runCalls] at h
    cases hd : dump printed cl.ctx cl.models with
    | none => simp [hd] at h
    | some r1 =>
      obtain ⟨p1, l1⟩ := r1
      simp only [hd] at h
      cases hr : runCalls p1 cs with
      | none => simp [hr] at h
      | some r2 =>
        obtain ⟨p2, l2⟩ := r2
        simp only [hr, Option.some.injEq, Prod.mk.injEq] at h
        rw [← h.2, List.mem_append] at hg
        rcases hg with hg | hg
        · have f := dump_gene_line hd hg
          have := f.contains_ref rr (href cl (by simp) f.nonempty)
          omega
        · have ht' : Line.tx c' s' e' st' g t ∈ l2 := by
            rw [← h.2, List.mem_append] at ht
            rcases ht with ht | ht
            · exfalso
              -- the gene already has a gated model in the first call, so its record is written there
              obtain ⟨m1, hm1, hv1, _, _, _, hg1, _⟩ := (dump_tx_line hd c' s' e' st' g t).mp ht
              have : g ∈ p1 := (dump_printed hd g).mpr (Or.inr ⟨m1, hm1, hv1, hg1⟩)
              exact (gene_line_origin cs p1 p2 l2 hr c s e st g n hg).1 this
            · exact ht
          exact ih (fun cl' hcl' => href cl' (by simp [hcl'])) p1 p2 l2 hr c s e st n c' s' e' st' t hg ht' h1 h2

/-- the two-call history of the witness: gene 7 (annotated region 10..50) is dumped with a model inside the region,
    then - in a later call - with a model reaching to 80 -/
def witnessCalls : List Call :=
  [ { ctx := { chr := 0, regions := [(7, (10, 50))] },
      models := [{ chr := 0, strand := 0, tid := 1, gid := 7, exons := [(10, 20), (30, 40)], known := true }] },
    { ctx := { chr := 0, regions := [(7, (10, 50))] },
      models := [{ chr := 0, strand := 0, tid := 2, gid := 7, exons := [(30, 40), (45, 50), (70, 80)], known := false }] } ]

/-- **gene_contains_all_transcripts_witness**: the full-strength statement is false of the model (and of the code:
    the same history is replayed on the real `GFFPrinter` by the oracle, and through the pipeline by a locus that is
    processed in two read regions). -/
theorem gene_contains_all_transcripts_witness : ¬ GeneContainsAllTranscripts witnessCalls := by
  intro h
  have := h [7] ((runCalls [] witnessCalls).elim [] (·.2)) (by decide) 0 10 50 0 7 1 0 30 80 0 2 (by decide) (by decide)
  omega

-- non-vacuity of the hypotheses: a two-call history with two genes, one call each, runs and prints both genes
example : OneCallPerGene
    [ { ctx := { chr := 0 }, models := [{ chr := 0, strand := 0, tid := 1, gid := 7, exons := [(10, 20)], known := false }] },
      { ctx := { chr := 0 }, models := [{ chr := 0, strand := 1, tid := 2, gid := 8, exons := [(5, 6), (9, 12)], known := false }] } ]
    ∧ (runCalls [] [ { ctx := { chr := 0 }, models := [{ chr := 0, strand := 0, tid := 1, gid := 7, exons := [(10, 20)], known := false }] },
      { ctx := { chr := 0 }, models := [{ chr := 0, strand := 1, tid := 2, gid := 8, exons := [(5, 6), (9, 12)], known := false }] } ]).isSome := by
  unfold OneCallPerGene
  decide

/-- **gene_chromosome**: if all calls of the history are for one chromosome (one printer per chromosome), every gene
    record and every transcript record is on that chromosome (the `assert`s of `dump` abort the call otherwise). -/
theorem gene_chromosome (calls : List Call) (chr0 : Id) (hc : ∀ cl ∈ calls, cl.ctx.chr = chr0) :
    ∀ (printed p' : List Id) (out : List Line), runCalls printed calls = some (p', out) →
    (∀ c s e st g n, Line.gene c s e st g n ∈ out → c = chr0) ∧
    (∀ c s e st g t, Line.tx c s e st g t ∈ out → c = chr0) := by
  induction calls with
  | nil =>
    intro printed p' out h
    simp only [runCalls, Option.some.injEq, Prod.mk.injEq] at h
    simp [← h.2]
  | cons cl cs ih =>
    intro printed p' out h
    simp only [runCalls] at h
    cases hd : dump printed cl.ctx cl.models with
    | none => simp [hd] at h
    | some r1 =>
      obtain ⟨p1, l1⟩ := r1
      simp only [hd] at h
      cases hr : runCalls p1 cs with
      | none => simp [hr] at h
      | some r2 =>
        obtain ⟨p2, l2⟩ := r2
        simp only [hr, Option.some.injEq, Prod.mk.injEq] at h
        have ih' := ih (fun cl' hcl' => hc cl' (by simp [hcl'])) p1 p2 l2 hr
        have hcl := hc cl (by simp)
        rw [← h.2]
        constructor
        · intro c s e st g n hl
          rcases List.mem_append.mp hl with hl | hl
          · rw [(dump_gene_line hd hl).chr, hcl]
          · exact ih'.1 c s e st g n hl
        · intro c s e st g t hl
          rcases List.mem_append.mp hl with hl | hl
          · obtain ⟨m, hm, hv, hreg, hmc, _, hg, _⟩ := (dump_tx_line hd c s e st g t).mp hl
            obtain ⟨_, _, _, _, n, hgl⟩ : ∃ c s e st n, Line.gene c s e st g n ∈ l1 ∨ g ∈ printed := by
              by_cases hp : g ∈ printed
              · exact ⟨0, 0, 0, 0, 0, Or.inr hp⟩
              · obtain ⟨c2, s2, e2, st2, n2, h2⟩ := dump_gene_line_exists hd g hp ⟨m, hm, hv, hg⟩
                exact ⟨c2, s2, e2, st2, n2, Or.inl h2⟩
            -- the chromosome of a gated model equals the call's chromosome whether or not the gene record is new
            obtain ⟨acc, seen, hinv, hs, _, _⟩ := dump_spec hd
            have := (hinv.seen_ok _ ((seen_mem hinv hs m (s, e)).mpr ⟨hm, hv, hreg⟩)).2.2
            rw [← hmc, this, hcl]
          · exact ih'.2 c s e st g t hl

/-- all gated models attributed to one gene carry one strand (assumption interface: `select_reference_gene`
    gives a novel transcript the strand of the reference gene, `TranscriptToGeneJoiner` only merges equal strands) -/
def UniformStrands (calls : List Call) : Prop :=
  ∀ m1 m2, InHistory calls m1 → InHistory calls m2 → m1.gid = m2.gid → m1.strand = m2.strand

/-- **gene_strand_matches_partial** (hypothesis `UniformStrands`): the strand of a gene record is the strand of every
    transcript record of the gene.  Without the hypothesis the gene record takes the strand of the *last* gated model
    of its call (`gene_strand_witness`). -/
theorem gene_strand_matches_partial (calls : List Call) (hu : UniformStrands calls) :
    ∀ (p' : List Id) (out : List Line), runCalls [] calls = some (p', out) →
    ∀ c s e st g n c' s' e' st' t, Line.gene c s e st g n ∈ out → Line.tx c' s' e' st' g t ∈ out → st' = st := by
  intro p' out h c s e st g n c' s' e' st' t hg ht
  obtain ⟨m2, hin2, _, _, hst2, hg2, _⟩ := (transcript_records_are_gated_models calls [] p' out h c' s' e' st' g t).mp ht
  -- the gene record's strand is the strand of some gated model of the gene
  have key : ∀ (calls : List Call) (printed p' : List Id) (out : List Line), runCalls printed calls = some (p', out) →
      Line.gene c s e st g n ∈ out → ∃ m, InHistory calls m ∧ m.gid = g ∧ m.strand = st := by
    intro calls
    induction calls with
    | nil =>
      intro printed p' out h hl
      simp only [runCalls, Option.some.injEq, Prod.mk.injEq] at h
      rw [← h.2] at hl; cases hl
    | cons cl cs ih =>
      intro printed p' out h hl
      simp only [runCalls] at h
      cases hd : dump printed cl.ctx cl.models with
      | none => simp [hd] at h
      | some r1 =>
        obtain ⟨p1, l1⟩ := r1
        simp only [hd] at h
        cases hr : runCalls p1 cs with
        | none => simp [hr] at h
        | some r2 =>
          obtain ⟨p2, l2⟩ := r2
          simp only [hr, Option.some.injEq, Prod.mk.injEq] at h
          rw [← h.2, List.mem_append] at hl
          rcases hl with hl | hl
          · obtain ⟨m, hm, hst⟩ := (dump_gene_line hd hl).strand_last
            have hmem := List.mem_of_getLast? hm
            unfold validOfGene at hmem
            rw [List.mem_filter, List.mem_filter] at hmem
            exact ⟨m, ⟨cl, by simp, hmem.1.1, hmem.1.2⟩, by simpa using hmem.2, hst.symm⟩
          · obtain ⟨m, ⟨cl', hcl', hm, hv⟩, hmg, hms⟩ := ih p1 p2 l2 hr hl
            exact ⟨m, ⟨cl', by simp [hcl'], hm, hv⟩, hmg, hms⟩
  obtain ⟨m1, hin1, hg1, hst1⟩ := key calls [] p' out h hg
  rw [← hst1, ← hst2]
  exact (hu m1 m2 hin1 hin2 (hg1.trans hg2.symm)).symm

def strandWitnessCalls : List Call :=
  [{ ctx := { chr := 0 },
     models := [{ chr := 0, strand := 0, tid := 1, gid := 7, exons := [(10, 20)], known := false },
                { chr := 0, strand := 1, tid := 2, gid := 7, exons := [(30, 40)], known := false }] }]

/-- **gene_strand_witness**: two models of one gene with different strands in one call: the gene record takes the
    strand of the last one, the first transcript record disagrees with it (the code logs a warning) -/
theorem gene_strand_witness :
    ∃ calls p' out, runCalls [] calls = some (p', out) ∧
      Line.gene 0 10 40 1 7 2 ∈ out ∧ Line.tx 0 10 20 0 7 1 ∈ out := by
  refine ⟨strandWitnessCalls, [7], (runCalls [] strandWitnessCalls).elim [] (·.2), by decide, by decide, by decide⟩

end IsoVerif.Props.C03Hist
