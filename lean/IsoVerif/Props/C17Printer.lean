/-
C17 — identifiers at the printing stage: `GFFPrinter.dump` (both printers of a chromosome share one
`FeatureIdStorage`; every printer keeps its `printed_gene_ids`).  Property theorems only.
All statements are over arbitrary sequences of `dump` calls with arbitrary model lists (valid or not).
-/
import IsoVerif.Model.IdsPrinter
import IsoVerif.Lemmas.Ids
import IsoVerif.Lemmas.IdsPrinter
import IsoVerif.Props.C17

namespace IsoVerif.Props.C17Printer
open IsoVerif.Gen IsoVerif.Model.C17 IsoVerif.Lemmas.C17 IsoVerif.Props.C17

/-- one `dump` call is one `get_id` history (the feature lines in printing order), every feature line gets
    an id, and gene lines are written exactly for the genes not yet in `printed_gene_ids` -/
theorem dump_is_history (st st' : FeatureIdStorage) (printed printed' : List Str) (giChr : Str)
    (regions : List (Str × (Int × Int))) (models : List TModel) (out : List OutLine)
    (h : dump st printed giChr regions models = some (out, printed', st')) :
    ∃ ks ids, st.getIds ks = some (ids, st') ∧ ids.length = ks.length ∧ outKeyIds out = ks.zip ids ∧
      (printed.Nodup → printed' = printed ++ outGeneIds out ∧ printed'.Nodup) := by
  unfold dump at h
  by_cases he : models.isEmpty
  · simp only [he, if_true, Option.some.injEq, Prod.mk.injEq] at h
    obtain ⟨rfl, rfl, rfl⟩ := h
    exact ⟨[], [], rfl, rfl, rfl, fun hn => ⟨by simp [outGeneIds, planGeneIds], hn⟩⟩
  · simp only [he] at h
    cases hp : dumpPlan printed giChr regions models with
    | none => simp [hp] at h
    | some r =>
      obtain ⟨plan, pr⟩ := r
      simp only [hp] at h
      cases hg : st.getIds (planKeys plan) with
      | none => simp [hg] at h
      | some r2 =>
        obtain ⟨ids, st2⟩ := r2
        simp only [hg, Option.some.injEq, Prod.mk.injEq] at h
        obtain ⟨rfl, rfl, rfl⟩ := h
        obtain ⟨hl, _⟩ := getIds_spec _ _ _ _ hg
        refine ⟨planKeys plan, ids, hg, hl, fill_keyIds plan ids hl, fun hn => ?_⟩
        unfold dumpPlan at hp
        cases hc : dumpCollect giChr regions models ⟨[], []⟩ with
        | none => simp [hc] at hp
        | some c =>
          simp only [hc, Option.some.injEq] at hp
          have := dumpGenes_printed c.geneModels
            (pySorted (fun a b => ivLexLe a.2.region b.2.region) c.geneInfo) printed hn
          rw [hp] at this
          simpa [outGeneIds, fill_plan] using this

/-- gene ids written by the printer `b` (false: transcript_models, true: extended_annotation) over a sequence -/
def printerGeneIds (b : Bool) : List DumpCall → List (List OutLine) → List Str
  | c :: cs, o :: os => (if c.extended = b then outGeneIds o else []) ++ printerGeneIds b cs os
  | _, _ => []

def printedOf (b : Bool) (s : PrintersState) : List Str := if b then s.printedExtended else s.printedModels

/-- a whole sequence of dump calls on the two printers is one `get_id` history on the shared storage, and
    each printer's `printed_gene_ids` grows exactly by the gene lines it wrote -/
theorem runDumps_is_history : ∀ (calls : List DumpCall) (s s' : PrintersState) (outs : List (List OutLine)),
    runDumps s calls = some (outs, s') →
    (∃ ks ids, s.st.getIds ks = some (ids, s'.st) ∧ ids.length = ks.length ∧
      outKeyIds outs.flatten = ks.zip ids) ∧
    ∀ b, (printedOf b s).Nodup →
      printedOf b s' = printedOf b s ++ printerGeneIds b calls outs ∧ (printedOf b s').Nodup
  | [], s, s', outs, h => by
      simp only [runDumps, Option.some.injEq, Prod.mk.injEq] at h
      obtain ⟨rfl, rfl⟩ := h
      exact ⟨⟨[], [], rfl, rfl, rfl⟩, fun b hn => ⟨by simp [printerGeneIds], hn⟩⟩
  | c :: cs, s, s', outs, h => by
      simp only [runDumps] at h
      cases hd : dump s.st (if c.extended then s.printedExtended else s.printedModels) c.giChr c.regions c.models with
      | none => simp [hd] at h
      | some r =>
        obtain ⟨out, printed', st1⟩ := r
        simp only [hd] at h
        generalize hs1 : (if c.extended then (⟨st1, s.printedModels, printed'⟩ : PrintersState)
            else ⟨st1, printed', s.printedExtended⟩) = s1 at h
        cases hr : runDumps s1 cs with
        | none => simp [hr] at h
        | some r2 =>
          obtain ⟨outs2, s2⟩ := r2
          simp only [hr, Option.some.injEq, Prod.mk.injEq] at h
          obtain ⟨rfl, rfl⟩ := h
          obtain ⟨ks1, ids1, g1, l1, z1, pr1⟩ := dump_is_history _ _ _ _ _ _ _ _ hd
          obtain ⟨⟨ks2, ids2, g2, l2, z2⟩, pr2⟩ := runDumps_is_history cs s1 s2 outs2 hr
          have hst : s1.st = st1 := by rw [← hs1]; split <;> rfl
          rw [hst] at g2
          constructor
          · refine ⟨ks1 ++ ks2, ids1 ++ ids2, ?_, by simp [l1, l2], ?_⟩
            · rw [getIds_append, g1]; simp only [g2]
            · simp only [List.flatten_cons, outKeyIds, List.filterMap_append] at z1 z2 ⊢
              rw [z1, z2, List.zip_append (by omega)]
          · intro b hn
            by_cases hb : c.extended = b
            · -- this call was made on printer b
              have hp1 : printedOf b s1 = printed' := by
                rw [← hs1, ← hb]; cases c.extended <;> simp [printedOf]
              have hp0 : printedOf b s = (if c.extended then s.printedExtended else s.printedModels) := by
                rw [← hb]; cases c.extended <;> simp [printedOf]
              obtain ⟨e1, n1⟩ := pr1 (hp0 ▸ hn)
              obtain ⟨e2, n2⟩ := pr2 b (hp1 ▸ n1)
              refine ⟨?_, n2⟩
              rw [e2, hp1, e1, ← hp0]
              simp [printerGeneIds, hb]
            · have hp1 : printedOf b s1 = printedOf b s := by
                subst hs1
                cases hce : c.extended <;> cases b <;> simp_all [printedOf]
              obtain ⟨e2, n2⟩ := pr2 b (hp1 ▸ hn)
              refine ⟨?_, n2⟩
              rw [e2, hp1]
              simp [printerGeneIds, hb]

/-- **exon_id column is functional and injective over everything both printers write**: for any storage
    satisfying the invariant (e.g. the one built from an injective reference, `init_inv`) and any sequence of
    dump calls, two written feature lines carry the same `exon_id` iff they have the same
    (chromosome, start, end, strand) -/
theorem dump_exon_ids_functional (s s' : PrintersState) (hinv : StInv s.st) (calls : List DumpCall)
    (outs : List (List OutLine)) (h : runDumps s calls = some (outs, s')) :
    ∀ p ∈ outKeyIds outs.flatten, ∀ q ∈ outKeyIds outs.flatten, (p.1 = q.1 ↔ p.2 = q.2) := by
  obtain ⟨⟨ks, ids, g, _, z⟩, _⟩ := runDumps_is_history calls s s' outs h
  obtain ⟨_, _, f⟩ := exon_id_functional_of_inv s.st s'.st hinv ks ids g
  rw [z]
  exact f

/-- **reference exon ids survive printing**: with the storage of the pipeline (reference records of every feature
    type), a written feature line whose interval has the (functional) reference exon id `id` carries `id` -/
theorem dump_reference_exon_ids_preserved (dist : IdDistributor) (recs : List RefRecord) (chr : Str)
    (hchr : chr.isEmpty = false) (f : RefRecord) (hf : f ∈ recs) (hft : f.ofType = true) (id : Str)
    (hid : recId f = some id)
    (hfun : RecFunctionalAt chr recs f) (pm pe : List Str) (calls : List DumpCall) (outs : List (List OutLine))
    (s' : PrintersState)
    (h : runDumps ⟨FeatureIdStorage.initRecords dist (some recs) chr, pm, pe⟩ calls = some (outs, s')) :
    ∀ p ∈ outKeyIds outs.flatten, p.1 = recKey chr f → p.2 = id := by
  obtain ⟨⟨ks, ids, g, _, z⟩, _⟩ := runDumps_is_history calls _ s' outs h
  rw [z]
  exact exon_id_reference_preserved dist recs chr hchr f hf hft id hid hfun ks ids s'.st g

/-- **no written line reuses a reference id for another interval**: whatever both printers write (exon lines and the
    CDS / codon / UTR lines of `other_features`), a line whose interval owns no reference id (no `exon` record with an
    `exon_id` there) carries an id that occurs on NO reference record of the chromosome, of any feature type -/
theorem dump_no_reference_exon_id_collision (dist : IdDistributor) (recs : List RefRecord) (chr : Str)
    (hchr : chr.isEmpty = false) (pm pe : List Str) (calls : List DumpCall) (outs : List (List OutLine))
    (s' : PrintersState)
    (h : runDumps ⟨FeatureIdStorage.initRecords dist (some recs) chr, pm, pe⟩ calls = some (outs, s')) :
    ∀ p ∈ outKeyIds outs.flatten, p.1 ∉ refExonKeys chr recs → p.2 ∉ allRefIds recs := by
  obtain ⟨⟨ks, ids, g, _, z⟩, _⟩ := runDumps_is_history calls _ s' outs h
  rw [z]
  exact fresh_exon_id_avoids_reference dist recs chr hchr ks ids s'.st g

/-- **a gene line is written at most once per output file**, over any sequence of dump calls: the gene ids
    of the gene lines of each printer are pairwise distinct (and new with respect to what it had printed) -/
theorem dump_gene_lines_unique (st : FeatureIdStorage) (calls : List DumpCall) (outs : List (List OutLine))
    (s' : PrintersState) (h : runDumps ⟨st, [], []⟩ calls = some (outs, s')) (b : Bool) :
    (printerGeneIds b calls outs).Nodup := by
  obtain ⟨_, pr⟩ := runDumps_is_history calls _ s' outs h
  obtain ⟨e, n⟩ := pr b (by cases b <;> simp [printedOf])
  rw [e] at n
  cases b <;> simpa [printedOf] using n

-- non-vacuity: two dumps on the same printer with a shared gene and a shared exon, one on the other printer
example :
    (runDumps ⟨FeatureIdStorage.initRecords SimpleIDDistributor.init
        (some [⟨true, 10, 20, ['+'], some ["E1".toList]⟩, ⟨false, 12, 18, ['+'], some ["c.1".toList]⟩]) ['c'], [], []⟩
      [⟨false, ['c'], [], [⟨['c'], ['+'], ['t', '1'], ['g'], [(10, 20), (30, 40)], []⟩]⟩,
       ⟨false, ['c'], [], [⟨['c'], ['+'], ['t', '2'], ['g'], [(30, 40)], [(30, 40, "CDS".toList)]⟩]⟩,
       ⟨true, ['c'], [], [⟨['c'], ['-'], ['t', '3'], ['g'], [(30, 40)], []⟩]⟩]).map
      (fun r => (r.1.map (fun o => (outGeneIds o).map String.ofList),
                 (outKeyIds r.1.flatten).map (fun p => String.ofList p.2)))
    = some ([["g"], [], ["g"]], ["E1", "c.2", "c.2", "c.2", "c.3"]) := by decide

/-- **transcript lines = valid models, each exactly once**: one dump call writes a transcript line for every
    model that passes `validate_exons` and for nothing else (a permutation: genes are reordered by region) -/
theorem dump_transcript_lines (st st' : FeatureIdStorage) (printed printed' : List Str) (giChr : Str)
    (regions : List (Str × (Int × Int))) (models : List TModel) (out : List OutLine)
    (h : dump st printed giChr regions models = some (out, printed', st')) :
    (outTranscriptIds out).Perm (validTids models) := by
  unfold dump at h
  by_cases he : models.isEmpty
  · simp only [he, if_true, Option.some.injEq, Prod.mk.injEq] at h
    obtain ⟨rfl, _, _⟩ := h
    have : models = [] := by simpa using he
    subst this
    exact List.Perm.refl _
  · simp only [he] at h
    cases hp : dumpPlan printed giChr regions models with
    | none => simp [hp] at h
    | some r =>
      obtain ⟨plan, pr⟩ := r
      simp only [hp] at h
      cases hg : st.getIds (planKeys plan) with
      | none => simp [hg] at h
      | some r2 =>
        obtain ⟨ids, st2⟩ := r2
        simp only [hg, Option.some.injEq, Prod.mk.injEq] at h
        obtain ⟨rfl, _, _⟩ := h
        simpa [outTranscriptIds, fill_plan] using dumpPlan_transcripts _ _ _ _ _ _ hp

/-- hence: if the valid models handed to a dump call have pairwise distinct transcript ids (novel ids:
    `novel_ids_unique_per_chr`; reference + novel: `extended_annotation_transcript_ids_nodup`), so have the
    transcript lines it writes -/
theorem dump_transcript_ids_unique (st st' : FeatureIdStorage) (printed printed' : List Str) (giChr : Str)
    (regions : List (Str × (Int × Int))) (models : List TModel) (out : List OutLine)
    (h : dump st printed giChr regions models = some (out, printed', st'))
    (hu : (validTids models).Nodup) : (outTranscriptIds out).Nodup :=
  (dump_transcript_lines st st' printed printed' giChr regions models out h).nodup_iff.mpr hu

-- non-vacuity: an invalid model (unsorted exons) is dropped, two genes are reordered by region
example :
    (dump ⟨SimpleIDDistributor.init, [], []⟩ [] ['c'] [] 
      [⟨['c'], ['+'], ['t', '1'], ['g', '2'], [(50, 60)], []⟩, ⟨['c'], ['+'], ['t', '2'], ['g', '1'], [(30, 40), (10, 20)], []⟩,
       ⟨['c'], ['+'], ['t', '3'], ['g', '1'], [(10, 20)], []⟩]).map (fun r => (outTranscriptIds r.1).map String.ofList)
    = some ["t3", "t1"] := by decide

end IsoVerif.Props.C17Printer
