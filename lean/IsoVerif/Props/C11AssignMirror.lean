/-
C11 — reflection duals inside the assigner model (Model/Assign.lean, property C01).

Under the reflection `x ↦ L + 1 − x` (Model/C11SymAssignMirror.lean: `mirrorEvent`, `mirrorPolyA`, `mirrorIsoInfo`,
`mirrorGene`, `mirrorReadProf`) the assignment TYPE and the isoform set are kept, strands and left/right events swap:

  * the tables behind `classify_assignment`, `get_inconsistency_classification`, `get_mono_exon_classification`, the event
    cost and the penalty sum do not see the swap (and the type / the exact penalty do not depend on the event order);
  * `categorize_exon_elongation_subtype`: the events of the left end become the right end's and vice versa
    (`left ++ right ↦ mirror right ++ mirror left`), under well-formed profile data and a common split exon
    (`elongation_no_common_witness`: without one the code indexes `split_exons[-1]` at BOTH ends);
    `check_read_ends` is self-dual, the assignment type it computes is invariant;
  * `verify_polya ↔ verify_polyt` with all helpers (`shift_polya ↔ shift_polyt`, the `while` loops of
    `detect_reference_exons_beyond_polya ↔ before_polyt`, `check_if_close`, `check_internal_polya ↔ polyt`) and
    `verify_read_ends` (strand + ↔ −), for ALL exon lists and event lists; hypotheses only about collisions with the
    sentinel −1 (`PolyaMirrorOK`; `detectBeyondPolyaBuggy_mirror_witness`: before fix a2ae069 the code took
    `abs(x − pos)` of an ABSENT position);
  * candidate selection: `find_containing_isoforms`, `is_fsm`, `detect_ism_subtype` (ism_left ↔ ism_right),
    `categorize_correct_splice_match`, the `extra_left / extra_right` flags of `select_similar_isoforms`, the two
    nucleotide scores (sorted disjoint lists).

All statements are for ALL inputs and all `L : Int`.
-/
import IsoVerif.Model.C11SymAssignMirror
import IsoVerif.Lemmas.C11AssignMirror
import IsoVerif.Props.C11
import IsoVerif.Props.C11Mirror

namespace IsoVerif.Props.C11AssignMirror
open IsoVerif.Gen IsoVerif.Model IsoVerif.Model.C01 IsoVerif.Model.C11 IsoVerif.Lemmas IsoVerif.Lemmas.C11
open IsoVerif.Props.C11

/-! ## the event transformation -/

/-- mirroring an event twice gives the event back -/
theorem mirrorEvent_involutive (L : Int) (n : Nat) (e : Event) : mirrorEvent L n (mirrorEvent L n e) = e := by
  rcases e with ⟨ty, ⟨a, b⟩, rr, info⟩
  cases ty <;> simp [mirrorEvent, swapLR, isTermMisTy, isPolyaSiteTy, mirrorP] <;> omega

/-- events without a positional payload are only renamed -/
example : mirrorEvent 1000 4 { ty := .exon_elongation_left, info := 17 } = { ty := .exon_elongation_right, info := 17 } ∧
    mirrorEvent 1000 4 { ty := .correct_polya_site_right, info := 900 } = { ty := .correct_polya_site_left, info := 101 } ∧
    mirrorEvent 1000 4 { ty := .terminal_exon_misalignment_right, isoRegion := (2, 2) }
      = { ty := .terminal_exon_misalignment_left, isoRegion := (0, 0) } := by decide

/-! ## classification tables, cost, penalty -/

/-- `classify_assignment` on event types: the left/right swap and the order of the events are invisible -/
theorem mirror_dual_classifyEvents (amb : Bool) (tys : List MatchEventSubtype) :
    classifyEvents amb (tys.map swapLR).reverse = classifyEvents amb tys := by
  simp only [classifyEvents, List.all_reverse, List.any_reverse, List.all_map, List.any_map, Function.comp_def,
    mirror_dual_is_consistent, mirror_dual_is_major_inconsistency, mirror_dual_is_intronic_inconsistency,
    mirror_dual_is_minor_error]

theorem perm_invariant_classifyEvents (amb : Bool) (t1 t2 : List MatchEventSubtype) (h : t1.Perm t2) :
    classifyEvents amb t1 = classifyEvents amb t2 := by
  simp only [classifyEvents, h.all_eq, h.any_eq]

example : [MatchEventSubtype.exon_elongation_left, .fsm].Perm [.fsm, .exon_elongation_left] ∧
    classifyEvents false [.exon_elongation_left, .fsm] = .unique_minor_difference := by
  refine ⟨List.Perm.swap _ _ _, by decide⟩

/-- `classify_assignment(best_isoforms, read_matches)`: isoforms in the reverse order, each event list mirrored
    (isoform `m` has `m.1` exons) and reversed — same assignment type -/
theorem mirror_dual_classifyAssignment (L : Int) (ms : List (Nat × List Event)) :
    classifyAssignment ((ms.map (fun m => (m.2.map (mirrorEvent L m.1)).reverse)).reverse)
      = classifyAssignment (ms.map (·.2)) := by
  simp only [classifyAssignment, classifyEvents, List.length_reverse, List.length_map, List.all_flatMap, List.any_flatMap,
    List.all_reverse, List.any_reverse, List.all_map, List.any_map, Function.comp_def, mirrorEvent,
    mirror_dual_is_consistent, mirror_dual_is_major_inconsistency, mirror_dual_is_intronic_inconsistency,
    mirror_dual_is_minor_error]

/-- `get_inconsistency_classification`: the nic / nnic tables are closed under the swap -/
theorem mirror_dual_inconsistencyClassification (L : Int) (n : Nat) (evs : List Event) :
    inconsistencyClassification (evs.map (mirrorEvent L n)).reverse = inconsistencyClassification evs := by
  have h1 : ∀ t, nnic_event_types.contains (swapLR t) = nnic_event_types.contains t := by intro t; cases t <;> decide
  have h2 : ∀ t, nic_event_types.contains (swapLR t) = nic_event_types.contains t := by intro t; cases t <;> decide
  simp only [inconsistencyClassification, List.any_reverse, List.any_map, Function.comp_def, mirrorEvent, h1, h2]

/-- `get_mono_exon_classification` (looks at the FIRST event when none of the sets applies): invariant under the
    swap, event order kept -/
theorem mirror_dual_monoExonClassification (L : Int) (n : Nat) (evs : List Event) :
    monoExonClassification (evs.map (mirrorEvent L n)) = monoExonClassification evs := by
  cases evs with
  | nil => rfl
  | cons e es =>
    simp only [monoExonClassification, List.map_cons, List.any_cons, List.any_map, Function.comp_def, am_mirrorEvent_ty,
      am_swapLR_eq_iff]
    simp only [swapLR]
    simp only [or_comm, or_left_comm] <;> rfl

/-- … but it is NOT invariant under a reversal of the event list (the code reads `events[0]`) -/
theorem monoExonClassification_order_witness :
    monoExonClassification [{ ty := .mono_exon_match }, { ty := .mono_exonic }]
      ≠ monoExonClassification ([{ ty := .mono_exon_match }, { ty := .mono_exonic }] : List Event).reverse := by
  decide

/-- the cost of an event does not see the reflection (both sides of a pair cost the same, `elongation_cost` reads
    the unchanged `event_info`, the event count reads index ranges that are not touched) -/
theorem mirror_dual_eventCost (L : Int) (n : Nat) (p : Params) (e : Event) :
    eventCost p (mirrorEvent L n e) = eventCost p e := by
  have hc := am_eventCount_mirror L n e
  rcases e with ⟨ty, ir, rr, info⟩
  simp only [eventCost, hc]
  simp only [mirrorEvent, mirror_dual_event_cost]
  cases ty <;> simp [swapLR, isPolyaSiteTy]

/-- the penalty (an exact rational sum) of the mirrored, reversed event list is the penalty of the original -/
theorem mirror_dual_penaltyOf (L : Int) (n : Nat) (p : Params) (evs : List Event) :
    penaltyOf p (evs.map (mirrorEvent L n)).reverse = penaltyOf p evs := by
  induction evs with
  | nil => rfl
  | cons e es ih =>
    simp only [List.map_cons, List.reverse_cons, am_penaltyOf_append, ih, penaltyOf, mirror_dual_eventCost]
    cases eventCost p e <;> cases penaltyOf p es <;> simp [Rat.add_comm, Rat.add_zero]

/-- the exact penalty does not depend on the event order at all (the float sum of the code does: fix e3a7729) -/
theorem perm_invariant_penaltyOf (p : Params) (l1 l2 : List Event) (h : l1.Perm l2) :
    penaltyOf p l1 = penaltyOf p l2 := by
  induction h with
  | nil => rfl
  | cons x _ ih => simp only [penaltyOf, ih]
  | swap x y l =>
    simp only [penaltyOf]
    cases eventCost p x <;> cases eventCost p y <;> cases penaltyOf p l <;> simp [Rat.add_left_comm]
  | trans _ _ ih1 ih2 => exact ih1.trans ih2

example : penaltyOf nanoporeParams [{ ty := .exon_elongation_left, info := 20 }, { ty := .intron_retention }]
    = penaltyOf nanoporeParams [{ ty := .intron_retention }, { ty := .exon_elongation_right, info := 20 }] ∧
    (penaltyOf nanoporeParams [{ ty := .exon_elongation_left, info := 20 }, { ty := .intron_retention }]).isSome := by
  decide +kernel

/-! ## `categorize_exon_elongation_subtype`, `check_read_ends` -/

/-- events of one read end: the left call with the left names is the right call with the right names -/
theorem mirror_dual_endEvents (p : Params) (L : Int) (n : Nat) (terminal : Bool) (extra : Int) :
    (endEvents p terminal extra .terminal_site_match_left_precise .terminal_site_match_left
        .major_exon_elongation_left .exon_elongation_left).map (mirrorEvent L n)
      = endEvents p terminal extra .terminal_site_match_right_precise .terminal_site_match_right
        .major_exon_elongation_right .exon_elongation_right ∧
    (endEvents p terminal extra .terminal_site_match_right_precise .terminal_site_match_right
        .major_exon_elongation_right .exon_elongation_right).map (mirrorEvent L n)
      = endEvents p terminal extra .terminal_site_match_left_precise .terminal_site_match_left
        .major_exon_elongation_left .exon_elongation_left :=
  am_endEvents_mirror p L n terminal extra

example : endEvents nanoporeParams true 20
    .terminal_site_match_left_precise .terminal_site_match_left .major_exon_elongation_left .exon_elongation_left
    = [{ ty := .terminal_site_match_left, info := 20 }, { ty := .exon_elongation_left, info := 20 }] := by decide

/-- the decomposition used below is the model's function -/
theorem elongationEvents_eq_sides (g : Gene) (p : Params) (rp : ReadProf) (I : IsoInfo) :
    elongationEvents g p rp I = (elongSides g p rp I).map (fun s => s.1 ++ s.2) :=
  am_elongationEvents_eq_sides g p rp I

/-- the two index loops: `common_first_exon` of the mirror image is `common_last_exon` of the original seen from the
    other end and vice versa ("none found" = −1 kept), including the error behaviour -/
theorem mirror_dual_commonEnds (L : Int) (g : Gene) (rp : ReadProf) (I : IsoInfo) (ni : Nat) (wf : ElongWF g rp I) :
    commonEnds (mirrorReadProf L g rp) (mirrorIsoInfo L ni g.splitExons.length I) =
      (commonEnds rp I).map (fun c => (dualIdx g.splitExons.length c.2, dualIdx g.splitExons.length c.1)) := by
  obtain ⟨hA, hB, ha, hb, hc, hd⟩ := wf
  obtain ⟨cf, cl, k1, k2, k3, k4, _, _⟩ :=
    am_commonEnds_core I.splitProf rp.split.gene g.splitExons.length hA hB I.splitRange.1 I.splitRange.2
      rp.split.range.1 rp.split.range.2 ha hb hc hd
  simp only [commonEnds, mirrorReadProf, mirrorIsoInfo, mirrorProfRes, mirrorRange, k1, k2, k3, k4, Option.map_some]

/-- `categorize_exon_elongation_subtype` of the mirrored gene, isoform and read: the left-end events are the mirrored
    right-end events of the original and vice versa -/
theorem mirror_dual_elongSides (L : Int) (g : Gene) (p : Params) (rp : ReadProf) (I : IsoInfo) (ni nEx : Nat)
    (wf : ElongWF g rp I) (hc : HasCommon rp I) :
    elongSides (mirrorGene L g) p (mirrorReadProf L g rp) (mirrorIsoInfo L ni g.splitExons.length I)
      = (elongSides g p rp I).map (fun s => (s.2.map (mirrorEvent L nEx), s.1.map (mirrorEvent L nEx))) :=
  am_elongSides_mirror L g p rp I ni nEx wf hc

/-- … as event lists: `left ++ right` becomes `mirror right ++ mirror left` (error ↦ error) -/
theorem mirror_dual_elongationEvents (L : Int) (g : Gene) (p : Params) (rp : ReadProf) (I : IsoInfo) (ni nEx : Nat)
    (wf : ElongWF g rp I) (hc : HasCommon rp I) :
    elongationEvents (mirrorGene L g) p (mirrorReadProf L g rp) (mirrorIsoInfo L ni g.splitExons.length I)
      = (elongSides g p rp I).map (fun s => s.2.map (mirrorEvent L nEx) ++ s.1.map (mirrorEvent L nEx)) := by
  rw [am_elongationEvents_eq_sides, am_elongSides_mirror L g p rp I ni nEx wf hc]
  cases elongSides g p rp I <;> rfl

/-- full-strength statement without `HasCommon` (FALSE: see the witness) -/
def ElongationMirror : Prop :=
  ∀ (L : Int) (g : Gene) (p : Params) (rp : ReadProf) (I : IsoInfo) (ni nEx : Nat), ElongWF g rp I →
    elongationEvents (mirrorGene L g) p (mirrorReadProf L g rp) (mirrorIsoInfo L ni g.splitExons.length I)
      = (elongSides g p rp I).map (fun s => s.2.map (mirrorEvent L nEx) ++ s.1.map (mirrorEvent L nEx))

/-- without a common split exon the code uses `split_exons[-1]` for BOTH ends, which is the LAST split exon in either
    orientation: the read [(20,38)] gets `exon_elongation_left 10` against the split exon (30,40), its mirror image
    gets `exon_elongation_left 18` against the mirror image of (10,20) instead of `exon_elongation_right 10` -/
theorem elongation_no_common_witness : ¬ ElongationMirror := by
  intro h
  have := h 50 oddGene nanoporeParams oddRead oddIso 1 1 (by decide)
  revert this; decide

-- non-vacuity: well-formed data with a common exon, all three kinds of events, both ends
example : ElongWF exGene exRead exIso ∧ HasCommon exRead exIso ∧
    elongSides exGene nanoporeParams exRead exIso =
      some ([{ ty := .terminal_site_match_left, info := 20 }, { ty := .exon_elongation_left, info := 20 }],
            [{ ty := .exon_elongation_right, info := 30 }]) ∧
    elongationEvents (mirrorGene 1000 exGene) nanoporeParams (mirrorReadProf 1000 exGene exRead)
        (mirrorIsoInfo 1000 2 3 exIso) =
      some [{ ty := .exon_elongation_left, info := 30 }, { ty := .terminal_site_match_right, info := 20 },
            { ty := .exon_elongation_right, info := 20 }] := by decide

/-- `check_read_ends` of the mirrored gene / read / matches is the mirror image of `check_read_ends` (written out on
    the original data as `checkReadEndsMirrored`: same isoforms, events mirrored, per match the right end's events
    before the left end's) -/
theorem mirror_dual_checkReadEnds (L : Int) (g : Gene) (p : Params) (rp : ReadProf) (ms : List (IsoInfo × IsoMatch))
    (ty : ReadAssignmentType) (h : ∀ Im ∈ ms, ElongWF g rp Im.1 ∧ HasCommon rp Im.1) :
    checkReadEnds (mirrorGene L g) p (mirrorReadProf L g rp) (ms.map (mirrorPair L g)) ty
      = checkReadEndsMirrored L g p rp ms ty :=
  am_checkReadEnds_mirror L g p rp ms ty h

/-- … in particular the assignment type computed by `check_read_ends` and the isoform list are invariant
    (`is_major_elongation` / `is_minor_elongation` do not see the swap), error ↦ error -/
theorem mirror_dual_checkReadEnds_type (L : Int) (g : Gene) (p : Params) (rp : ReadProf)
    (ms : List (IsoInfo × IsoMatch)) (ty : ReadAssignmentType) (h : ∀ Im ∈ ms, ElongWF g rp Im.1 ∧ HasCommon rp Im.1) :
    (checkReadEnds (mirrorGene L g) p (mirrorReadProf L g rp) (ms.map (mirrorPair L g)) ty).map
        (fun r => (r.1.map (fun Im => Im.1.id), r.2))
      = (checkReadEnds g p rp ms ty).map (fun r => (r.1.map (fun Im => Im.1.id), r.2)) := by
  rw [am_checkReadEnds_mirror L g p rp ms ty h, am_checkReadEndsMirrored_type]

example : (∀ Im ∈ [(exIso, ({ iso := some 0, cls := .full_splice_match, events := [{ ty := .fsm }] } : IsoMatch))],
      ElongWF exGene exRead Im.1 ∧ HasCommon exRead Im.1) ∧
    (checkReadEnds exGene nanoporeParams exRead
      [(exIso, { iso := some 0, cls := .full_splice_match, events := [{ ty := .fsm }] })] .unique).map (·.2)
      = some .unique_minor_difference := by decide

/-! ## the polyA / polyT pair of src/polya_verification.py (the C01 copies in Model/Assign.lean) -/

/-- `shift_polya ↔ shift_polyt` (exon list mirrored, position mirrored, result mirrored; IndexError ↦ IndexError) -/
theorem mirror_dual_shiftPolya (L : Int) (exons : List Iv) (cnt : Nat) (pos : Int) (hp : pos ≠ -1) (h : L + 1 - pos ≠ -1) :
    C01.shiftPolyt (mirrorL L exons) cnt (L + 1 - pos) = (C01.shiftPolya exons cnt pos).map (mirrorP L) :=
  am_shiftPolya_mirror L exons cnt pos hp h

theorem mirror_dual_shiftPolyt (L : Int) (exons : List Iv) (cnt : Nat) (pos : Int) (hp : pos ≠ -1) (h : L + 1 - pos ≠ -1) :
    C01.shiftPolya (mirrorL L exons) cnt (L + 1 - pos) = (C01.shiftPolyt exons cnt pos).map (mirrorP L) :=
  am_shiftPolyt_mirror L exons cnt pos hp h

/-- the sentinel is a fixed point of both -/
theorem shiftPoly_sentinel_fixed (exons : List Iv) (cnt : Nat) :
    C01.shiftPolya exons cnt (-1) = some (-1) ∧ C01.shiftPolyt exons cnt (-1) = some (-1) :=
  am_shiftPoly_sentinel exons cnt

example : C01.shiftPolya [(100, 200), (300, 330)] 1 305 = some 205 ∧
    C01.shiftPolyt (mirrorL 1000 [(100, 200), (300, 330)]) 1 (1000 + 1 - 305) = some (mirrorP 1000 205) := by decide

/-- the `while` loops of `detect_reference_exons_beyond_polya` / `before_polyt` -/
theorem mirror_dual_countBeyond (L pos : Int) (iso : List Iv) :
    countBefore (L + 1 - pos) (mirrorL L iso) = countBeyond pos iso.reverse := by
  rw [mirrorL_eq_map_reverse, am_countBefore_mirror]

theorem mirror_dual_countBefore (L pos : Int) (iso : List Iv) :
    countBeyond (L + 1 - pos) (mirrorL L iso).reverse = countBefore pos iso := by
  rw [mirrorL_reverse, am_countBeyond_mirror]

/-- counting / deleting events by type commutes with the reflection of the event list -/
theorem mirror_dual_countTy (L : Int) (n : Nat) (evs : List Event) (t : MatchEventSubtype) :
    countTy (evs.map (mirrorEvent L n)) (swapLR t) = countTy evs t :=
  am_countTy_mirror L n evs t

theorem mirror_dual_eraseLastOf (L : Int) (n : Nat) (evs : List Event) (t1 t2 : MatchEventSubtype) :
    eraseLastOf (evs.map (mirrorEvent L n)) (swapLR t1) (swapLR t2) = (eraseLastOf evs t1 t2).map (mirrorEvent L n) :=
  am_eraseLastOf_mirror L n evs t1 t2

/-- `check_if_close` is self-dual: isoform end and both positions mirrored (−1 kept), event type swapped -/
theorem mirror_dual_checkIfClose (L : Int) (n : Nat) (p : Params) (stop ext int : Int) (evs : List Event)
    (ty : MatchEventSubtype) (hty : isPolyaSiteTy ty = true) (he : PosOK L ext) (hi : PosOK L int) :
    checkIfClose p (L + 1 - stop) (mirrorPos L ext) (mirrorPos L int) (evs.map (mirrorEvent L n)) (swapLR ty)
      = (checkIfClose p stop ext int evs ty).map (List.map (mirrorEvent L n)) :=
  am_checkIfClose_mirror L n p stop ext int evs ty hty he hi

/-- the sentinel hypothesis of `check_if_close` is needed: the position 1001 is mirrored onto −1 = "absent" -/
theorem checkIfClose_sentinel_witness :
    checkIfClose nanoporeParams (999 + 1 - 990) (mirrorPos 999 1001) (mirrorPos 999 (-1)) [] .correct_polya_site_left
      ≠ (checkIfClose nanoporeParams 990 1001 (-1) [] .correct_polya_site_right).map (List.map (mirrorEvent 999 2)) := by
  decide

example : isPolyaSiteTy .correct_polya_site_right = true ∧ PosOK 2000 1001 ∧ PosOK 2000 (-1) ∧
    checkIfClose nanoporeParams 990 1001 (-1) [] .correct_polya_site_right
      = some [{ ty := .correct_polya_site_right, info := 1001 }] := by decide

/-- `detect_reference_exons_beyond_polya ↔ detect_reference_exons_before_polyt`: events mirrored (the added
    `terminal_exon_misalignment_right` with intron index n−2−i become `…_left` with index i), both returned positions
    mirrored.  Since fix a2ae069 (an absent position is infinitely far: `minInf (distOrInf ..)`) the only hypotheses are the sentinel
    collisions. -/
theorem mirror_dual_detectBeyondPolya (L : Int) (p : Params) (iso : List Iv) (ext int : Int) (evs : List Event)
    (he : PosOK L ext) (hi : PosOK L int) (hend : ∀ e, iso.getLast? = some e → e.2 ≠ -1) :
    detectBeforePolyt p (mirrorL L iso) (mirrorPos L ext) (mirrorPos L int) (evs.map (mirrorEvent L iso.length))
      = (detectBeyondPolya p iso ext int evs).map
          (fun r => (r.1.map (mirrorEvent L iso.length), mirrorPos L r.2.1, mirrorPos L r.2.2)) :=
  am_detectBeyond_mirror L p iso ext int evs he hi hend

theorem mirror_dual_detectBeforePolyt (L : Int) (p : Params) (iso : List Iv) (ext int : Int) (evs : List Event)
    (he : PosOK L ext) (hi : PosOK L int) (hstart : ∀ e, iso.head? = some e → e.1 ≠ -1) :
    detectBeyondPolya p (mirrorL L iso) (mirrorPos L ext) (mirrorPos L int) (evs.map (mirrorEvent L iso.length))
      = (detectBeforePolyt p iso ext int evs).map
          (fun r => (r.1.map (mirrorEvent L iso.length), mirrorPos L r.2.1, mirrorPos L r.2.2)) :=
  am_detectBefore_mirror L p iso ext int evs he hi hstart

/-- the distance the two functions test is invariant (absent = infinitely far) -/
theorem mirror_dual_tailDist (L a ext int : Int) (he : PosOK L ext) (hi : PosOK L int) :
    minInf (distOrInf (L + 1 - a) (mirrorPos L ext)) (distOrInf (L + 1 - a) (mirrorPos L int)) = minInf (distOrInf a ext) (distOrInf a int) :=
  am_tailDist_mirror L a ext int he hi

-- non-vacuity: a short last exon beyond the polyA site is recognised as missed in both orientations
example : PosOK 5000 1230 ∧ PosOK 5000 (-1) ∧
    detectBeyondPolya nanoporeParams [(1000, 1200), (1300, 1320)] 1230 (-1) []
      = some ([{ ty := .terminal_exon_misalignment_right, isoRegion := (0, 0) }], 1320, 1320) ∧
    detectBeforePolyt nanoporeParams (mirrorL 5000 [(1000, 1200), (1300, 1320)]) (mirrorPos 5000 1230) (-1) []
      = some ([{ ty := .terminal_exon_misalignment_left, isoRegion := (0, 0) }], 3681, 3681) := by decide

/-- regression witness of fix a2ae069: the code before the fix took `abs(exon_end − pos)` of the ABSENT internal
    position −1 as well; for a gene at the chromosome start the sentinel was the nearer one
    (|30 − (−1)| = 31 ≤ 40 < |30 − 135|) and the last exon counted as "missed", while in the mirror image (and after any
    large translation) it did not: the two old functions are NOT each other's mirror image on this input
    (all coordinates positive, no real position is −1) … -/
theorem detectBeyondPolyaBuggy_mirror_witness :
    detectBeforePolytBuggy nanoporeParams (mirrorL 1000 sentIso) (mirrorPos 1000 sentInfo.extA) (mirrorPos 1000 sentInfo.intA) []
      ≠ (detectBeyondPolyaBuggy nanoporeParams sentIso sentInfo.extA sentInfo.intA []).map
          (fun r => (r.1.map (mirrorEvent 1000 sentIso.length), mirrorPos 1000 r.2.1, mirrorPos 1000 r.2.2)) := by
  decide

-- … while the fixed functions (and `verify_polya ↔ verify_polyt` on top of them) are dual on the same input
example : PolyaMirrorOK 1000 sentIso sentRead sentInfo.extA sentInfo.intA 0 ∧
    detectBeyondPolya nanoporeParams sentIso sentInfo.extA sentInfo.intA [] = some ([], 135, -1) ∧
    detectBeforePolyt nanoporeParams (mirrorL 1000 sentIso) (mirrorPos 1000 sentInfo.extA) (mirrorPos 1000 sentInfo.intA) []
      = some ([], 866, -1) ∧
    verifyPolya nanoporeParams sentIso sentRead sentInfo [] = some [{ ty := .alternative_polya_site_right, info := 135 }] ∧
    verifyPolyt nanoporeParams (mirrorL 1000 sentIso) (mirrorL 1000 sentRead) (mirrorPolyA 1000 sentInfo) []
      = some [{ ty := .alternative_polya_site_left, info := 866 }] := by decide

/-- `verify_polya` of an isoform / read / polyA info / event list = `verify_polyt` of their mirror images
    (error ↦ error), under the sentinel hypotheses `PolyaMirrorOK` -/
theorem mirror_dual_verifyPolya (L : Int) (p : Params) (iso read : List Iv) (pa : PolyA) (evs0 : List Event)
    (h : PolyaMirrorOK L iso read pa.extA pa.intA (countTy evs0 .fake_terminal_exon_right)) :
    verifyPolyt p (mirrorL L iso) (mirrorL L read) (mirrorPolyA L pa) (evs0.map (mirrorEvent L iso.length))
      = (verifyPolya p iso read pa evs0).map (List.map (mirrorEvent L iso.length)) :=
  am_verifyPolya_mirror L p iso read pa evs0 h

theorem mirror_dual_verifyPolyt (L : Int) (p : Params) (iso read : List Iv) (pa : PolyA) (evs0 : List Event)
    (h : PolytMirrorOK L iso read pa.extT pa.intT (countTy evs0 .fake_terminal_exon_left)) :
    verifyPolya p (mirrorL L iso) (mirrorL L read) (mirrorPolyA L pa) (evs0.map (mirrorEvent L iso.length))
      = (verifyPolyt p iso read pa evs0).map (List.map (mirrorEvent L iso.length)) :=
  am_verifyPolyt_mirror L p iso read pa evs0 h

example : PolyaMirrorOK 1000 paIso paRead paInfo.extA paInfo.intA 0 ∧
    verifyPolya nanoporeParams paIso paRead paInfo [] = some [{ ty := .correct_polya_site_right, info := 381 }] ∧
    verifyPolyt nanoporeParams (mirrorL 1000 paIso) (mirrorL 1000 paRead) (mirrorPolyA 1000 paInfo) []
      = some [{ ty := .correct_polya_site_left, info := 620 }] := by decide

/-- `check_internal_polya ↔ check_internal_polyt` -/
theorem mirror_dual_checkInternal (L : Int) (n : Nat) (pos : Int) (evs : List Event) (hp : PosOK L pos) :
    checkInternal (mirrorPos L pos) (evs.map (mirrorEvent L n)) .incomplete_intron_retention_left .internal_polya_left
      = ((checkInternal pos evs .incomplete_intron_retention_right .internal_polya_right).1.map (mirrorEvent L n),
         (checkInternal pos evs .incomplete_intron_retention_right .internal_polya_right).2) ∧
    checkInternal (mirrorPos L pos) (evs.map (mirrorEvent L n)) .incomplete_intron_retention_right .internal_polya_right
      = ((checkInternal pos evs .incomplete_intron_retention_left .internal_polya_left).1.map (mirrorEvent L n),
         (checkInternal pos evs .incomplete_intron_retention_left .internal_polya_left).2) :=
  ⟨am_checkInternal_mirror L n pos evs .incomplete_intron_retention_right .internal_polya_right hp rfl rfl,
   am_checkInternal_mirror L n pos evs .incomplete_intron_retention_left .internal_polya_left hp rfl rfl⟩

/-- `PolyAVerifier.verify_read_ends`: strand + ↔ −, polyA ↔ polyT, events mirrored (error ↦ error) -/
theorem mirror_dual_verifyReadEnds (L : Int) (g : Gene) (p : Params) (rp : ReadProf) (I : IsoInfo) (evs : List Event)
    (ni ns : Nat) (h : ReadEndsMirrorOK L rp I evs) :
    verifyReadEnds p (mirrorReadProf L g rp) (mirrorIsoInfo L ni ns I) (evs.map (mirrorEvent L I.exons.length))
      = (verifyReadEnds p rp I evs).map (List.map (mirrorEvent L I.exons.length)) :=
  am_verifyReadEnds_mirror L g p rp I evs ni ns h

example : ReadEndsMirrorOK 1000 (exReadOf paRead [1, 1] [1, 1] (0, 2) paInfo) (exIsoOf paIso .plus [1, 1] (0, 2))
      [{ ty := .exon_elongation_right, info := 7 }] ∧
    verifyReadEnds nanoporeParams (exReadOf paRead [1, 1] [1, 1] (0, 2) paInfo) (exIsoOf paIso .plus [1, 1] (0, 2))
      [{ ty := .exon_elongation_right, info := 7 }] = some [{ ty := .correct_polya_site_right, info := 381 }] := by decide

/-! ## candidate selection -/

/-- `find_containing_isoforms`: the same isoforms (`contains_approx` is self-dual) -/
theorem mirror_dual_findContaining (L : Int) (g : Gene) (p : Params) (rp : ReadProf) (ni ns : Nat) (hint : List IsoInfo) :
    findContaining p (mirrorReadProf L g rp) (hint.map (mirrorIsoInfo L ni ns))
      = (findContaining p rp hint).map (mirrorIsoInfo L ni ns) := by
  simp only [findContaining, List.filter_map]
  congr 1
  apply List.filter_congr
  intro I _
  simp only [Function.comp, mirrorIsoInfo, mirrorReadProf, mirror_dual_contains_approx]

/-- `is_fsm` -/
theorem mirror_dual_isFsm (L : Int) (g : Gene) (rp : ReadProf) (ni ns : Nat) (I : IsoInfo) :
    isFsm (mirrorReadProf L g rp) (mirrorIsoInfo L ni ns I) = isFsm rp I := by
  simp only [isFsm, mirrorIsoInfo, mirrorReadProf, am_regionOf_mirror, Option.map_map]
  congr 1
  funext r
  simp only [Function.comp, mirror_dual_contains]

/-- `detect_ism_subtype`: `ism_left ↔ ism_right`, `ism_internal` and `none` fixed -/
theorem mirror_dual_detectIsmSubtype (L : Int) (g : Gene) (rp : ReadProf) (ni ns : Nat) (I : IsoInfo) :
    detectIsmSubtype (mirrorReadProf L g rp) (mirrorIsoInfo L ni ns I) = (detectIsmSubtype rp I).map swapLR := by
  simp only [detectIsmSubtype, mirrorIsoInfo, mirrorReadProf, am_regionOf_mirror, Option.map_map]
  congr 1
  funext r
  simp only [Function.comp, mirrorIv]
  by_cases h1 : r.1 < rp.region.1 <;> by_cases h2 : r.2 > rp.region.2 <;>
    simp [h1, h2, swapLR] <;> omega

-- non-vacuity: a read inside a three-exon isoform: ISM truncated on the right, its mirror image on the left
example : detectIsmSubtype exRead exIso = some .ism_right ∧
    detectIsmSubtype (mirrorReadProf 1000 exGene exRead) (mirrorIsoInfo 1000 2 3 exIso) = some .ism_left ∧
    isFsm exRead exIso = some false := by decide

/-- `categorize_correct_splice_match`: same classification, the event mirrored -/
theorem mirror_dual_categorizeSplice (L : Int) (g : Gene) (rp : ReadProf) (ni ns nEx : Nat) (I : IsoInfo) :
    categorizeSplice (mirrorReadProf L g rp) (mirrorIsoInfo L ni ns I)
      = (categorizeSplice rp I).map (fun ce => (ce.1, mirrorEvent L nEx ce.2)) := by
  have h1 : (mirrorReadProf L g rp).intron.read.length = rp.intron.read.length := by
    simp [mirrorReadProf, mirrorProfRes]
  have h2 : (mirrorIsoInfo L ni ns I).introns.length = I.introns.length := by simp [mirrorIsoInfo, mirrorL_length]
  simp only [categorizeSplice, h1, h2, mirror_dual_isFsm, mirror_dual_detectIsmSubtype]
  split
  · rfl
  · cases isFsm rp I with
    | none => rfl
    | some b =>
      cases b
      · simp only [detectIsmSubtype]
        cases regionOf I.introns with
        | none => rfl
        | some r =>
          by_cases a1 : r.1 < rp.region.1 <;> by_cases a2 : r.2 > rp.region.2 <;> simp [a1, a2] <;> rfl
      · rfl

/-- the two nucleotide scores (exact rationals) of sorted disjoint well-formed block / exon lists -/
theorem mirror_dual_nucleotideScores (L : Int) (g : Gene) (p : Params) (rp : ReadProf) (ni ns : Nat) (I : IsoInfo)
    (h1 : SD rp.blocks) (h2 : SD I.exons) (w1 : WFl rp.blocks) (w2 : WFl I.exons) :
    jaccardScore p (mirrorReadProf L g rp) (mirrorIsoInfo L ni ns I) = jaccardScore p rp I ∧
    coverageScore p (mirrorReadProf L g rp) (mirrorIsoInfo L ni ns I) = coverageScore p rp I := by
  have he : extendedRegion p (mirrorIsoInfo L ni ns I) = (extendedRegion p I).map (mirrorIv L) := by
    simp only [extendedRegion, mirrorIsoInfo, am_regionOf_mirror, Option.map_map]
    congr 1; funext r; simp only [Function.comp, mirrorIv]; ext <;> simp <;> omega
  have hb : (mirrorReadProf L g rp).blocks = mirrorL L rp.blocks := rfl
  have hx : (mirrorIsoInfo L ni ns I).exons = mirrorL L I.exons := rfl
  simp only [jaccardScore, coverageScore, he, hb, hx, IsoVerif.Props.C11Mirror.mirror_dual_jaccardSweep L _ _ h1 h2 w1 w2,
    IsoVerif.Props.C11Mirror.mirror_dual_readCoverageFraction L _ _ h1 h2 w1 w2]
  cases extendedRegion p I with
  | none => simp
  | some r =>
    simp only [Option.map_some]
    constructor
    · cases jaccardSweep rp.blocks I.exons with
      | none => rfl
      | some js => simp only [IsoVerif.Props.C11Mirror.mirror_dual_extraExonPercentage]
    · cases readCoverageFraction rp.blocks I.exons with
      | none => rfl
      | some js => simp only [IsoVerif.Props.C11Mirror.mirror_dual_extraExonPercentage]

/-- the two "extra terminal bases" flags of `select_similar_isoforms` swap (the fixed `extra_right` typo lived here:
    160863b) -/
theorem mirror_dual_extraFlags (L : Int) (g : Gene) (p : Params) (rp : ReadProf) (ni ns : Nat) (I : IsoInfo) :
    (decide ((mirrorReadProf L g rp).region.1 + p.delta < (mirrorIsoInfo L ni ns I).region.1)
        = decide (rp.region.2 - p.delta > I.region.2)) ∧
    (decide ((mirrorReadProf L g rp).region.2 - p.delta > (mirrorIsoInfo L ni ns I).region.2)
        = decide (rp.region.1 + p.delta < I.region.1)) := by
  simp only [mirrorReadProf, mirrorIsoInfo, mirrorIv]
  constructor <;> (apply decide_eq_decide.mpr; omega)

example : SD exRead.blocks ∧ SD exIso.exons ∧ WFl exRead.blocks ∧ WFl exIso.exons ∧
    (jaccardScore nanoporeParams exRead exIso).isSome := by
  refine ⟨by decide, by decide, by decide, by decide, by decide +kernel⟩

/-- `has_overlapping_features` on reversed profiles over the mirrored index range (profiles of equal length `n`, range
    inside `[0, n]`: no position raises, so the early exit of the loop is invisible) -/
theorem mirror_dual_hasOverlappingFeatures (p1 p2 : List Int) (n : Nat) (h1 : p1.length = n) (h2 : p2.length = n)
    (rng : Int × Int) (ha : 0 ≤ rng.1) (hb : rng.2 ≤ n) :
    hasOverlappingFeatures p1.reverse p2.reverse (mirrorRange n rng) = hasOverlappingFeatures p1 p2 rng :=
  am_hasOverlapping_mirror p1 p2 n h1 h2 rng ha hb

/-- `difference_in_present_features` (a sum over the range: the order is immaterial) -/
theorem mirror_dual_differenceInPresentFeatures (p1 p2 : List Int) (n : Nat) (h1 : p1.length = n) (h2 : p2.length = n)
    (rng : Int × Int) (ha : 0 ≤ rng.1) (hb : rng.2 ≤ n) :
    differenceInPresentFeatures p1.reverse p2.reverse (mirrorRange n rng) = differenceInPresentFeatures p1 p2 rng :=
  am_differenceInPresentFeatures_mirror p1 p2 n h1 h2 rng ha hb

/-- outside the range hypothesis the two orientations differ in their error behaviour: the original loop finds a
    common feature at index 0 and returns True before it reaches the out-of-range indices, the mirrored loop starts at
    index −3 and raises -/
theorem hasOverlappingFeatures_range_witness :
    hasOverlappingFeatures ([1, 0] : List Int).reverse ([1, 1] : List Int).reverse (mirrorRange 2 (0, 5))
      ≠ hasOverlappingFeatures [1, 0] [1, 1] (0, 5) := by decide

example : hasOverlappingFeatures [1, -1, 1] [0, 0, 1] (1, 3) = some true ∧
    differenceInPresentFeatures [1, -1, 1] [1, 1, 0] (0, 3) = some 1 := by decide

/-- `find_overlapping_isoforms` -/
theorem mirror_dual_findOverlapping (L : Int) (g : Gene) (rp : ReadProf) (hint : List IsoInfo)
    (wf : ∀ I ∈ hint, ElongWF g rp I) :
    findOverlapping (mirrorReadProf L g rp) (hint.map (mirrorIsoInfo L g.introns.length g.splitExons.length))
      = (findOverlapping rp hint).map (List.map (mirrorIsoInfo L g.introns.length g.splitExons.length)) :=
  am_findOverlapping_mirror L g rp hint wf

/-- `select_similar_isoforms` of the mirrored gene and read selects the same isoforms -/
theorem mirror_dual_selectSimilar (L : Int) (g : Gene) (p : Params) (rp : ReadProf)
    (wf : ∀ I ∈ g.isos, ElongWF g rp I ∧ I.intronProf.length = g.introns.length ∧ SD I.exons ∧ WFl I.exons)
    (hr : rp.intron.gene.length = g.introns.length ∧ 0 ≤ rp.intron.range.1 ∧ rp.intron.range.2 ≤ g.introns.length)
    (hb : SD rp.blocks ∧ WFl rp.blocks) :
    selectSimilar (mirrorGene L g) p (mirrorReadProf L g rp)
      = (selectSimilar g p rp).map (List.map (mirrorIsoInfo L g.introns.length g.splitExons.length)) := by
  have hisos : (mirrorGene L g).isos = g.isos.map (mirrorIsoInfo L g.introns.length g.splitExons.length) := rfl
  simp only [selectSimilar, hisos, am_findOverlapping_mirror L g rp g.isos (fun I hI => (wf I hI).1)]
  cases hov : findOverlapping rp g.isos with
  | none => rfl
  | some ov =>
    have hovm := am_filterOpt_mem _ _ _ hov
    simp only [Option.map_some, List.isEmpty_map]
    split
    · rfl
    · rw [am_resolveByScore_map (coverageScore p rp) (coverageScore p (mirrorReadProf L g rp))
          (mirrorIsoInfo L g.introns.length g.splitExons.length) none ov (fun I hI => by
            obtain ⟨_, _, s1, s2⟩ := wf I (hovm I hI)
            exact (mirror_dual_nucleotideScores L g p rp _ _ I hb.1 s1 hb.2 s2).2)]
      cases hsig : resolveByScore (coverageScore p rp) none ov with
      | none => rfl
      | some sig =>
        have hsigm := am_resolveByScore_mem _ _ _ _ hsig
        simp only [Option.map_some, List.isEmpty_map]
        split
        · rfl
        · rw [am_mapOpt_map
            (fun I => (differenceInPresentFeatures I.intronProf rp.intron.gene rp.intron.range).map (fun d => (I, d)))
            (fun I => (differenceInPresentFeatures I.intronProf (mirrorReadProf L g rp).intron.gene
                (mirrorReadProf L g rp).intron.range).map (fun d => (I, d)))
            (mirrorIsoInfo L g.introns.length g.splitExons.length)
            (fun Id => (mirrorIsoInfo L g.introns.length g.splitExons.length Id.1, Id.2)) sig (fun I hI => by
              obtain ⟨_, hl, _, _⟩ := wf I (hovm I (hsigm I hI))
              have := am_differenceInPresentFeatures_mirror I.intronProf rp.intron.gene g.introns.length hl hr.1
                rp.intron.range hr.2.1 hr.2.2
              simp only [mirrorReadProf, mirrorProfRes, mirrorIsoInfo, this]
              cases differenceInPresentFeatures I.intronProf rp.intron.gene rp.intron.range <;> rfl)]
          cases mapOpt (fun I => (differenceInPresentFeatures I.intronProf rp.intron.gene rp.intron.range).map
              (fun d => (I, d))) sig with
          | none => rfl
          | some diffs =>
            simp only [Option.map_some]
            have e : ((fun (x : IsoInfo × Int) =>
                  (x.1, x.2 + (if (mirrorReadProf L g rp).region.2 - p.delta > x.1.region.2 then 1 else 0)
                    + (if (mirrorReadProf L g rp).region.1 + p.delta < x.1.region.1 then 1 else 0))) ∘
                (fun Id => (mirrorIsoInfo L g.introns.length g.splitExons.length Id.1, Id.2)))
                = ((fun (Id : IsoInfo × Int) => (mirrorIsoInfo L g.introns.length g.splitExons.length Id.1, Id.2)) ∘
                   (fun (x : IsoInfo × Int) =>
                  (x.1, x.2 + (if rp.region.2 - p.delta > x.1.region.2 then 1 else 0)
                    + (if rp.region.1 + p.delta < x.1.region.1 then 1 else 0)))) := by
              funext x
              simp only [Function.comp, mirrorReadProf, mirrorIsoInfo, mirrorIv]
              congr 1
              have c1 : (L + 1 - rp.region.1 - p.delta > L + 1 - x.1.region.1) = (rp.region.1 + p.delta < x.1.region.1) := by
                apply propext; constructor <;> intro <;> omega
              have c2 : (L + 1 - rp.region.2 + p.delta < L + 1 - x.1.region.2) = (rp.region.2 - p.delta > x.1.region.2) := by
                apply propext; constructor <;> intro <;> omega
              simp only [c1, c2]
              by_cases h1 : rp.region.2 - p.delta > x.1.region.2 <;> by_cases h2 : rp.region.1 + p.delta < x.1.region.1 <;>
                simp [h1, h2] <;> omega
            have hc : (diffs.map (fun Id => (mirrorIsoInfo L g.introns.length g.splitExons.length Id.1, Id.2))).map
                (fun (x : IsoInfo × Int) =>
                  (x.1, x.2 + (if (mirrorReadProf L g rp).region.2 - p.delta > x.1.region.2 then 1 else 0)
                    + (if (mirrorReadProf L g rp).region.1 + p.delta < x.1.region.1 then 1 else 0)))
                = (diffs.map (fun (x : IsoInfo × Int) =>
                  (x.1, x.2 + (if rp.region.2 - p.delta > x.1.region.2 then 1 else 0)
                    + (if rp.region.1 + p.delta < x.1.region.1 then 1 else 0)))).map
                  (fun Id => (mirrorIsoInfo L g.introns.length g.splitExons.length Id.1, Id.2)) := by
              rw [List.map_map, List.map_map, e]
            rw [hc]
            generalize diffs.map (fun (x : IsoInfo × Int) =>
                  (x.1, x.2 + (if rp.region.2 - p.delta > x.1.region.2 then 1 else 0)
                    + (if rp.region.1 + p.delta < x.1.region.1 then 1 else 0))) = cands
            simp only [List.map_map]
            have e2 : ((fun (x : IsoInfo × Int) => x.2) ∘
                fun (Id : IsoInfo × Int) => (mirrorIsoInfo L g.introns.length g.splitExons.length Id.1, Id.2))
                = (fun (x : IsoInfo × Int) => x.2) := rfl
            rw [e2]
            cases minList (cands.map (·.2)) with
            | none => rfl
            | some best => simp [List.filter_map, Function.comp_def]

-- non-vacuity: a gene built by `from_models`, a read through `construct_profiles`; both isoforms are selected
example : (∀ I ∈ selGene.isos, ElongWF selGene selRead I ∧ I.intronProf.length = selGene.introns.length ∧
      SD I.exons ∧ WFl I.exons) ∧
    (selRead.intron.gene.length = selGene.introns.length ∧ 0 ≤ selRead.intron.range.1 ∧
      selRead.intron.range.2 ≤ selGene.introns.length) ∧ (SD selRead.blocks ∧ WFl selRead.blocks) ∧
    (selectSimilar selGene nanoporeParams selRead).map (fun l => l.map (·.id)) = some [0, 1] := by
  decide +kernel

end IsoVerif.Props.C11AssignMirror
