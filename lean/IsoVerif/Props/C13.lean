/-
C13 — exon / intron inclusion and exclusion counts equal a recount from the alignments.
Part 1: the counters (src/long_read_counter.py ProfileFeatureCounter / ExonCounter / IntronCounter), the dumped
tables and their row identity.  Property theorems only; helper lemmas are in IsoVerif/Lemmas/C13Counts.lean.

A *history* is the list of read events (gene profile, property map of the read's GeneInfo, read group) fed to a
counter in order; `countAll key upd ignore dflt evs` is the counter state after the whole history (`none` = the code
raised IndexError), `dumpRows` the table it writes.  `key = coordKey`, `upd = FeatureInfo.merge` is the code after the
candidate repair of finding G1 (rows keyed by (chr, start, end), descriptions merged); `strandKey`, `keepFirst` the code
after fix a8ffd5c (`…Orig`); `idKey`, `keepFirst` the code before it.  `hupd` (re-describing a row does not change its
key) holds for all three (`hupd_merge`, `hupd_keepFirst`).
-/
import IsoVerif.Model.FeatureCounts
import IsoVerif.Lemmas.C13Counts
import IsoVerif.Lemmas.C13Merge

namespace IsoVerif.Props.C13
open IsoVerif.Gen IsoVerif.Model IsoVerif.Model.C13 IsoVerif.Lemmas.C13

variable {κ : Type} [BEq κ] [LawfulBEq κ] {upd : FeatureInfo → FeatureInfo → FeatureInfo}

theorem hupd_merge : ∀ a b : FeatureInfo, coordKey (a.merge b) = coordKey a := merge_coordKey
theorem hupd_keepFirst (key : FeatureInfo → κ) : ∀ a b : FeatureInfo, key (keepFirst a b) = key a := fun _ _ => rfl

/-! ### include / exclude counts are folds over the processed reads -/

/-- the include count of feature key `k` in group `g` is the number of (processed read, profile position) pairs
    filed under `g` whose profile value is +1 at a feature with key `k` (`hits` = number of such positions of one read) -/
theorem include_counts (key : FeatureInfo → κ) (hupd : ∀ a b, key (upd a b) = key a) (ignore : Bool) (dflt : String) (evs : List ReadEv) (st : PCounter κ)
    (h : countAll key upd ignore dflt evs = some st) (k : κ) (g : String) :
    st.inclOf k g =
      ((evs.filter (fun ev => groupOf ignore dflt ev == g)).map (fun ev => hits key 1 k ev.profile ev.pmap)).sum := by
  have := (run_spec key hupd ignore dflt evs _ st (GInv_init ignore dflt) (NInv_init key ignore dflt) h).2.2.1 k g
  rw [this]
  cases ignore <;> simp [PCounter.inclOf, PCounter.init, getCount] <;> split <;> simp

theorem exclude_counts (key : FeatureInfo → κ) (hupd : ∀ a b, key (upd a b) = key a) (ignore : Bool) (dflt : String) (evs : List ReadEv) (st : PCounter κ)
    (h : countAll key upd ignore dflt evs = some st) (k : κ) (g : String) :
    st.exclOf k g =
      ((evs.filter (fun ev => groupOf ignore dflt ev == g)).map (fun ev => hits key (-1) k ev.profile ev.pmap)).sum := by
  have := (run_spec key hupd ignore dflt evs _ st (GInv_init ignore dflt) (NInv_init key ignore dflt) h).2.2.2.1 k g
  rw [this]
  cases ignore <;> simp [PCounter.exclOf, PCounter.init, getCount] <;> split <;> simp

/-- when the features of every property map have distinct keys (true of `set_feature_properties` under `coordKey`,
    see `feature_keys_nodup`), a read contributes at most once: the include count is the *number of processed reads*
    of the group whose profile is +1 at the feature -/
theorem include_counts_reads (key : FeatureInfo → κ) (hupd : ∀ a b, key (upd a b) = key a) (ignore : Bool) (dflt : String) (evs : List ReadEv) (st : PCounter κ)
    (h : countAll key upd ignore dflt evs = some st) (hnd : ∀ ev ∈ evs, (ev.pmap.map key).Nodup) (k : κ) (g : String) :
    st.inclOf k g = (evs.filter (fun ev => groupOf ignore dflt ev == g)).countP (marks key 1 k) := by
  rw [include_counts key hupd ignore dflt evs st h k g, ← sum_ite_eq_countP]
  congr 1
  apply List.map_congr_left
  intro ev hev
  exact hits_eq_marks key 1 k ev (hnd ev (List.mem_filter.mp hev).1)

theorem exclude_counts_reads (key : FeatureInfo → κ) (hupd : ∀ a b, key (upd a b) = key a) (ignore : Bool) (dflt : String) (evs : List ReadEv) (st : PCounter κ)
    (h : countAll key upd ignore dflt evs = some st) (hnd : ∀ ev ∈ evs, (ev.pmap.map key).Nodup) (k : κ) (g : String) :
    st.exclOf k g = (evs.filter (fun ev => groupOf ignore dflt ev == g)).countP (marks key (-1) k) := by
  rw [exclude_counts key hupd ignore dflt evs st h k g, ← sum_ite_eq_countP]
  congr 1
  apply List.map_congr_left
  intro ev hev
  exact hits_eq_marks key (-1) k ev (hnd ev (List.mem_filter.mp hev).1)

-- non-vacuity: a history of three reads over two loads of the same gene (different running ids), two groups
def exFi (id : Nat) (s e : Int) : FeatureInfo :=
  { id := id, chr := "chr1", start := s, stop := e, strand := "+", ftype := "I", genes := ["g1"] }
def exHistory : List ReadEv :=
  [{ profile := [1, -1], pmap := [exFi 1 10 20, exFi 2 30 40], group := "A" },
   { profile := [1, 1], pmap := [exFi 3 10 20, exFi 4 30 40], group := "B" },
   { profile := [0, -1], pmap := [exFi 1 10 20, exFi 2 30 40], group := "A" }]

example : ∃ st, countAll coordKey FeatureInfo.merge true "NA" exHistory = some st ∧
    st.inclOf ("chr1", 10, 20) "NA" = 2 ∧ st.exclOf ("chr1", 30, 40) "NA" = 2 ∧
    (∀ ev ∈ exHistory, (ev.pmap.map coordKey).Nodup) := by
  refine ⟨_, rfl, by decide, by decide, by decide⟩

/-! ### the dumped table -/

/-- every dumped row carries the counts of its (feature key, group) and at least one of them is positive -/
theorem dump_row_counts (key : FeatureInfo → κ) (hupd : ∀ a b, key (upd a b) = key a) (ignore : Bool) (dflt : String) (evs : List ReadEv) (st : PCounter κ)
    (h : countAll key upd ignore dflt evs = some st) (r : CountRow) (hr : r ∈ dumpRows st) :
    r.incl = st.inclOf (key r.fi) r.group ∧ r.excl = st.exclOf (key r.fi) r.group ∧ (0 < r.incl ∨ 0 < r.excl) := by
  obtain ⟨_, hN, _⟩ := run_spec key hupd ignore dflt evs _ st (GInv_init ignore dflt) (NInv_init key ignore dflt) h
  obtain ⟨k, hk, gid, hgid, hi, he, hpos⟩ := (mem_dumpRows st r).mp hr
  have : key r.fi = k := hN.names_key _ hk
  subst this
  simp [PCounter.inclOf, PCounter.exclOf, hgid, hi, he]
  rw [← hi, ← he]; exact hpos

/-- every (feature key, group) with a positive count has a row -/
theorem dump_complete (key : FeatureInfo → κ) (hupd : ∀ a b, key (upd a b) = key a) (ignore : Bool) (dflt : String) (evs : List ReadEv) (st : PCounter κ)
    (h : countAll key upd ignore dflt evs = some st) (k : κ) (g : String) (hpos : 0 < st.inclOf k g ∨ 0 < st.exclOf k g) :
    ∃ r ∈ dumpRows st, key r.fi = k ∧ r.group = g ∧ r.incl = st.inclOf k g ∧ r.excl = st.exclOf k g := by
  obtain ⟨_, hN, _⟩ := run_spec key hupd ignore dflt evs _ st (GInv_init ignore dflt) (NInv_init key ignore dflt) h
  unfold PCounter.inclOf PCounter.exclOf at hpos ⊢
  cases hl : st.groupIds.lookup g with
  | none => simp [hl] at hpos
  | some gid =>
    simp only [hl] at hpos ⊢
    have hmem : k ∈ st.names.map (·.1) := hN.counted_named k gid (by omega)
    obtain ⟨⟨k', fi⟩, hp, hpk⟩ := List.mem_map.mp hmem
    simp only at hpk; subst hpk
    refine ⟨{ fi := fi, group := g, incl := getCount st.incl (k', gid), excl := getCount st.excl (k', gid) }, ?_, ?_, rfl, rfl, rfl⟩
    · exact (mem_dumpRows st _).mpr ⟨k', hp, gid, hl, rfl, rfl, hpos⟩
    · exact hN.names_key _ hp

/-- ONE ROW PER FEATURE (full strength, code after the candidate repair of G1): for every history of loads - the same
    annotated feature described by gene infos built from any gene subsets, in any order, under any strand strings -
    no two rows of the dumped table have the same chromosome, start, end and group -/
theorem one_row_per_feature (ignore : Bool) (dflt : String) (evs : List ReadEv) (st : PCounter CoordKey)
    (h : countAll coordKey FeatureInfo.merge ignore dflt evs = some st) :
    ((dumpRows st).map (fun r => ((r.fi.chr, r.fi.start, r.fi.stop), r.group))).Nodup := by
  obtain ⟨hG, hN, _⟩ := run_spec coordKey hupd_merge ignore dflt evs _ st (GInv_init ignore dflt) (NInv_init coordKey ignore dflt) h
  exact dumpRows_nodup coordKey st hG hN

/-- the code before the repair (rows keyed by (chr, start, end, strand string), first description kept): rows are
    unique only up to the strand string -/
theorem one_row_per_feature_strand_partial (ignore : Bool) (dflt : String) (evs : List ReadEv) (st : PCounter StrandKey)
    (h : countAll strandKey keepFirst ignore dflt evs = some st) :
    ((dumpRows st).map (fun r => ((r.fi.chr, r.fi.start, r.fi.stop, r.fi.strand), r.group))).Nodup := by
  obtain ⟨hG, hN, _⟩ := run_spec strandKey (hupd_keepFirst strandKey) ignore dflt evs _ st (GInv_init ignore dflt)
    (NInv_init strandKey ignore dflt) h
  exact dumpRows_nodup strandKey st hG hN

/-- the same statement for any row key: rows never share (key, group) -/
theorem one_row_per_key (key : FeatureInfo → κ) (hupd : ∀ a b, key (upd a b) = key a) (ignore : Bool) (dflt : String) (evs : List ReadEv) (st : PCounter κ)
    (h : countAll key upd ignore dflt evs = some st) :
    ((dumpRows st).map (fun r => (key r.fi, r.group))).Nodup := by
  obtain ⟨hG, hN, _⟩ := run_spec key hupd ignore dflt evs _ st (GInv_init ignore dflt) (NInv_init key ignore dflt) h
  exact dumpRows_nodup key st hG hN

/-- the defect that was fixed (rows keyed by the running `FeatureInfo.id`): the gene is loaded twice, the exon
    chr1:10-20 gets ids 1 and 3, and the table has two rows for it with the counts split 1 + 1 -/
theorem feature_row_split_witness :
    (countAll idKey keepFirst true "NA" exHistory).map (fun st => (dumpRows st).map (fun r => (coordKey r.fi, r.incl, r.excl))) =
      some [(("chr1", 10, 20), 1, 0), (("chr1", 30, 40), 0, 2), (("chr1", 10, 20), 1, 0), (("chr1", 30, 40), 1, 0)] ∧
    (countAll coordKey FeatureInfo.merge true "NA" exHistory).map (fun st => (dumpRows st).map (fun r => (coordKey r.fi, r.incl, r.excl))) =
      some [(("chr1", 10, 20), 2, 0), (("chr1", 30, 40), 1, 2)] := by
  constructor <;> decide

/-- row identity: the key of a row is the key of descriptions counted under it (FeatureInfos of the property maps of
    processed reads at positions where the profile is +1 or −1: `mem_touched`), and the description printed is the FIRST of
    them re-described (`upd`) with every later one, in the order of the history -/
theorem row_description (key : FeatureInfo → κ) (hupd : ∀ a b, key (upd a b) = key a) (ignore : Bool) (dflt : String)
    (evs : List ReadEv) (st : PCounter κ)
    (h : countAll key upd ignore dflt evs = some st) (r : CountRow) (hr : r ∈ dumpRows st) :
    ∃ f rest, (touched evs).filter (fun x => key x == key r.fi) = f :: rest ∧ r.fi = rest.foldl upd f := by
  obtain ⟨_, hN, _, _, _, hnames⟩ := run_spec key hupd ignore dflt evs _ st (GInv_init ignore dflt) (NInv_init key ignore dflt) h
  obtain ⟨k, hk, _⟩ := (mem_dumpRows st r).mp hr
  have hkey : key r.fi = k := hN.names_key _ hk
  have hl := lookup_of_mem_nodup st.names k r.fi hk hN.names_nodup
  have h0 : (PCounter.init ignore dflt : PCounter κ).names = [] := by cases ignore <;> rfl
  rw [hnames, h0, lookup_nameFold, ← hkey] at hl
  simp only [List.lookup] at hl
  split at hl
  · simp at hl
  · rename_i f rest hf
    exact ⟨f, rest, hf, by simpa using hl.symm⟩

theorem row_from_property_map (key : FeatureInfo → κ) (hupd : ∀ a b, key (upd a b) = key a) (ignore : Bool) (dflt : String)
    (evs : List ReadEv) (st : PCounter κ)
    (h : countAll key upd ignore dflt evs = some st) (r : CountRow) (hr : r ∈ dumpRows st) :
    ∃ ev ∈ evs, ∃ x ∈ ev.profile.zip ev.pmap, (x.1 = 1 ∨ x.1 = -1) ∧ key x.2 = key r.fi := by
  obtain ⟨f, rest, hf, _⟩ := row_description key hupd ignore dflt evs st h r hr
  have hm : f ∈ (touched evs).filter (fun x => key x == key r.fi) := by rw [hf]; exact List.mem_cons_self ..
  obtain ⟨hm1, hm2⟩ := List.mem_filter.mp hm
  obtain ⟨ev, hev, p, hp, hv, hx⟩ := (mem_touched evs f).mp hm1
  exact ⟨ev, hev, p, hp, hv, by rw [hx]; simpa using hm2⟩

/-! ### grouped variants partition the ungrouped counts -/

/-- the groups a grouped counter has registered are exactly the read groups of the processed reads, without repetition -/
theorem grouped_groups (key : FeatureInfo → κ) (hupd : ∀ a b, key (upd a b) = key a) (dflt : String) (evs : List ReadEv) (sg : PCounter κ)
    (hg : countAll key upd false dflt evs = some sg) :
    (sg.groupIds.map (·.1)).Nodup ∧ ∀ g, g ∈ sg.groupIds.map (·.1) ↔ ∃ ev ∈ evs, ev.group = g := by
  obtain ⟨hG, _, _, _, hgr, _⟩ := run_spec key hupd false dflt evs _ sg (GInv_init false dflt) (NInv_init key false dflt) hg
  refine ⟨hG.grp_nodup, ?_⟩
  intro g
  rw [hgr g]
  simp [PCounter.init, groupOf]

/-- GROUPED PARTITION: for every feature key, the counts of the grouped counter summed over its groups equal the
    counts of the ungrouped counter fed with the same history -/
theorem grouped_partition (key : FeatureInfo → κ) (hupd : ∀ a b, key (upd a b) = key a) (dflt : String) (evs : List ReadEv) (su sg : PCounter κ)
    (hu : countAll key upd true dflt evs = some su) (hg : countAll key upd false dflt evs = some sg) (k : κ) :
    su.inclOf k dflt = ((sg.groupIds.map (·.1)).map (fun g => sg.inclOf k g)).sum ∧
    su.exclOf k dflt = ((sg.groupIds.map (·.1)).map (fun g => sg.exclOf k g)).sum := by
  obtain ⟨hnd, hmem⟩ := grouped_groups key hupd dflt evs sg hg
  have hall : ∀ ev ∈ evs, ev.group ∈ sg.groupIds.map (·.1) := fun ev hev => (hmem ev.group).mpr ⟨ev, hev, rfl⟩
  constructor
  · rw [include_counts key hupd true dflt evs su hu k dflt]
    have : ∀ g, sg.inclOf k g = ((evs.filter (fun ev => ev.group == g)).map (fun ev => hits key 1 k ev.profile ev.pmap)).sum := by
      intro g; rw [include_counts key hupd false dflt evs sg hg k g]; simp [groupOf]
    simp only [this]
    rw [sum_by_group _ hnd evs (·.group) _ hall]
    have hft : evs.filter (fun _ => true) = evs := List.filter_eq_self.mpr (fun _ _ => rfl)
    simp [groupOf, hft]
  · rw [exclude_counts key hupd true dflt evs su hu k dflt]
    have : ∀ g, sg.exclOf k g = ((evs.filter (fun ev => ev.group == g)).map (fun ev => hits key (-1) k ev.profile ev.pmap)).sum := by
      intro g; rw [exclude_counts key hupd false dflt evs sg hg k g]; simp [groupOf]
    simp only [this]
    rw [sum_by_group _ hnd evs (·.group) _ hall]
    have hft : evs.filter (fun _ => true) = evs := List.filter_eq_self.mpr (fun _ _ => rfl)
    simp [groupOf, hft]

/-- GROUPED PARTITION at the level of the written tables: for every feature key, the include (exclude) counts of the
    rows of the grouped table with that key sum to the count of the ungrouped counter — which is what the single row
    of the ungrouped table shows (`dump_row_counts`, `dump_complete`, `one_row_per_key`) -/
theorem grouped_tables_partition (key : FeatureInfo → κ) (hupd : ∀ a b, key (upd a b) = key a) (dflt : String) (evs : List ReadEv) (su sg : PCounter κ)
    (hu : countAll key upd true dflt evs = some su) (hg : countAll key upd false dflt evs = some sg) (k : κ) :
    (((dumpRows sg).filter (fun r => key r.fi == k)).map (·.incl)).sum = su.inclOf k dflt ∧
    (((dumpRows sg).filter (fun r => key r.fi == k)).map (·.excl)).sum = su.exclOf k dflt ∧
    (((dumpRows su).filter (fun r => key r.fi == k)).map (·.incl)).sum = su.inclOf k dflt ∧
    (((dumpRows su).filter (fun r => key r.fi == k)).map (·.excl)).sum = su.exclOf k dflt := by
  obtain ⟨_, hNg, _⟩ := run_spec key hupd false dflt evs _ sg (GInv_init false dflt) (NInv_init key false dflt) hg
  obtain ⟨_, hNu, _, _, hgu, _⟩ := run_spec key hupd true dflt evs _ su (GInv_init true dflt) (NInv_init key true dflt) hu
  obtain ⟨p1, p2⟩ := grouped_partition key hupd dflt evs su sg hu hg k
  obtain ⟨d1, d2⟩ := dumpRows_sum key sg hNg k
  obtain ⟨u1, u2⟩ := dumpRows_sum key su hNu k
  refine ⟨by rw [d1, p1], by rw [d2, p2], ?_, ?_⟩
  · rw [u1]
    have : su.groupIds = [(dflt, 0)] := by
      have h0 := run_groupIds_ungrouped key dflt evs su hu
      exact h0
    simp [this]
  · rw [u2]
    have : su.groupIds = [(dflt, 0)] := run_groupIds_ungrouped key dflt evs su hu
    simp [this]

example : ∃ su sg, countAll coordKey FeatureInfo.merge true "NA" exHistory = some su ∧ countAll coordKey FeatureInfo.merge false "NA" exHistory = some sg ∧
    sg.groupIds.map (·.1) = ["A", "B"] ∧ su.inclOf ("chr1", 10, 20) "NA" = 2 ∧
    sg.inclOf ("chr1", 10, 20) "A" = 1 ∧ sg.inclOf ("chr1", 10, 20) "B" = 1 := by
  refine ⟨_, _, rfl, rfl, by decide, by decide, by decide, by decide⟩

end IsoVerif.Props.C13
