/-
C06 — the inventories regenerated from /repo on every run (`Gen/SharedState.lean`, `Gen/SetSites.lean`) are covered
by the hand-written handled tables (`Model/C06Inventory.lean`).  Closed by `decide` over the whole tables: a new
class-level / module-level mutable, a new unsorted iteration over a set, a new reader of an assignment id or a new
run-dependent call re-opens the obligation.  Kept in a file of its own so that a failure here does not take the
other C06 theorems down with it.
-/
import IsoVerif.Model.C06Inventory

namespace IsoVerif.Props.C06
open IsoVerif.Model.C06Inv IsoVerif.Gen


/-- every class-level / module-level mutable of the modules reachable from isoquant.py (re-extracted from
    /repo on every run) has an entry, hence an argument, in the handled table -/
theorem inventory_handled : subsetB shared_state_inventory (handled_state.map Prod.fst) = true := by decide

theorem args_fields_handled : subsetB args_fields_mutated handled_args_fields = true := by decide

/-- every place where the iteration order of a set is observable has an entry in the handled table -/
theorem set_sites_handled : subseqB set_iteration_sites (handled_set_sites.map Prod.fst) = true := by decide +kernel

theorem nondeterminism_handled : subsetB nondeterminism_calls handled_nondeterminism = true := by decide

/-- nobody but the loader's equality test and the (de)serialisers reads an assignment id -/
theorem assignment_id_readers_handled : subsetB assignment_id_readers handled_assignment_id_readers = true := by decide

theorem feature_info_readers_handled : subsetB feature_info_readers handled_feature_info_readers = true := by decide

/-- non-vacuity: the inventories are not empty and the check does reject an unknown item -/
example : shared_state_inventory ≠ [] ∧ set_iteration_sites ≠ [] ∧
    subsetB ("NewClass.cache" :: shared_state_inventory) (handled_state.map Prod.fst) = false ∧
    subseqB ["a:f:for:s", "new:g:list:t"] ["a:f:for:s", "b:h:for:u"] = false := by decide +kernel


end IsoVerif.Props.C06
